package main

import (
	"crypto/ecdsa"
	"encoding/binary"
	"encoding/json"
	"fmt"
	"sort"
	"strings"
	"verif/harness/explore"

	"github.com/mosaicnetworks/babble/src/common"
	hg "github.com/mosaicnetworks/babble/src/hashgraph"
	"github.com/mosaicnetworks/babble/src/peers"
	"verif/harness/ev"
	"verif/harness/mon"
	"verif/harness/sched"
	"verif/harness/sim"
)

// fakePeer builds a syntactically valid, distinct peer without EC arithmetic
// (C19 quantifies over set sizes; keys only need to be distinct).
func fakePeer(i int) *peers.Peer {
	b := make([]byte, 65)
	b[0] = 4
	binary.BigEndian.PutUint64(b[1:], uint64(i)+1)
	binary.BigEndian.PutUint64(b[33:], uint64(i)*7919+13)
	return peers.NewPeer(common.EncodeToString(b), fmt.Sprintf("a%d", i), fmt.Sprintf("m%d", i))
}

// cloneSet copies the member slice: WithNewPeer appends to the receiver's
// slice, so two sets derived from one parent share a backing array; the BFS
// derives many children from each state and must not let them alias (real
// nodes only ever derive one successor from a set).
func cloneSet(ps *peers.PeerSet) *peers.PeerSet {
	return peers.NewPeerSet(append([]*peers.Peer{}, ps.Peers...))
}

func leastGreaterThanTwoThirds(n int) int {
	for k := 0; ; k++ {
		if 3*k > 2*n {
			return k
		}
	}
}

// trustWrong is the C19 trust oracle. The property states a necessary
// condition (trusted only with > n/3 signatures of distinct validators; one
// signature suffices only for n = 1); the implementation may be stricter. As
// a sanity bound on the other side, a block signed by all n validators must be
// trusted.
func trustWrong(n, sigs int, trusted bool) string {
	if trusted && !(3*sigs > n) {
		return fmt.Sprintf("%d signatures are trusted although %d <= n/3", sigs, sigs)
	}
	if trusted && n >= 2 && sigs < 2 {
		return fmt.Sprintf("%d signature(s) suffice for n=%d", sigs, n)
	}
	if trusted && sigs < 1 {
		return "trusted without any signature"
	}
	if !trusted && sigs == n {
		return "a block signed by all validators is not trusted"
	}
	return ""
}

func init() {
	checks["C19"] = func(args []string) int {
		rep := ev.NewReport("C19", "model_checking")
		// both tiers run the full parameters (constructor agreement up to n = 6000, set sequences to depth 8, 97 DAGs for the
		// vote count): half a minute
		th := true
		maxN := 100000
		viol := func(key, what string, replay map[string]interface{}) {
			rep.Violations = append(rep.Violations, ev.Violation{Property: "C19", Key: key, What: what, Replay: replay})
		}
		states, transitions := 0, 0
		samples := []interface{}{}
		// (1) every n in 1..100000. The PeerSet for size n is the value NewPeerSet
		// would build (Peers slice + both index maps), assembled incrementally so
		// the sweep is O(n) overall; for n <= nCtor and every 5000th n the real
		// constructor / WithNewPeer is used as well and must agree.
		nCtor := 300
		if th {
			nCtor = 6000
		}
		all := []*peers.Peer{}
		usedID := map[uint32]bool{}
		for i := 0; len(all) < maxN; i++ {
			p := fakePeer(i)
			if usedID[p.ID()] { // 32-bit ids of synthetic keys may collide; membership is by id
				continue
			}
			usedID[p.ID()] = true
			all = append(all, p)
		}
		byKey := map[string]*peers.Peer{}
		byID := map[uint32]*peers.Peer{}
		grown := peers.NewPeerSet([]*peers.Peer{})
		nontrivial := 0
		for n := 1; n <= maxN; n++ {
			p := all[n-1]
			byKey[p.PubKeyString()] = p
			byID[p.ID()] = p
			ps := &peers.PeerSet{Peers: all[:n], ByPubKey: byKey, ByID: byID}
			transitions++
			states++
			sm, tc := ps.SuperMajority(), ps.TrustCount()
			if n <= nCtor {
				grown = grown.WithNewPeer(p)
			}
			if n <= nCtor || n%5000 == 0 {
				c := peers.NewPeerSet(all[:n])
				if n <= nCtor && (grown.Len() != n || grown.SuperMajority() != sm || grown.TrustCount() != tc) {
					viol("grown", fmt.Sprintf("PeerSet grown by %d WithNewPeer calls: Len=%d SuperMajority=%d TrustCount=%d, expected %d/%d/%d", n, grown.Len(), grown.SuperMajority(), grown.TrustCount(), n, sm, tc), map[string]interface{}{"n": n})
				}
				if c.Len() != n || c.SuperMajority() != sm || c.TrustCount() != tc {
					viol("ctor", fmt.Sprintf("NewPeerSet of %d peers: Len=%d SuperMajority=%d TrustCount=%d, expected %d/%d/%d", n, c.Len(), c.SuperMajority(), c.TrustCount(), n, sm, tc), map[string]interface{}{"n": n})
				}
				transitions++
			}
			want := leastGreaterThanTwoThirds(n)
			if sm != want {
				viol(fmt.Sprintf("supermajority-n%d", n), fmt.Sprintf("n=%d: SuperMajority()=%d, least integer > 2n/3 is %d", n, sm, want), map[string]interface{}{"n": n})
			}
			for _, sigs := range []int{0, 1, tc - 1, tc, tc + 1, tc + 2, n} {
				if sigs < 0 || sigs > n {
					continue
				}
				trusted := sigs > tc
				if bad := trustWrong(n, sigs, trusted); bad != "" {
					viol(fmt.Sprintf("trustcount-n%d", n), fmt.Sprintf("n=%d TrustCount=%d: %s", n, tc, bad), map[string]interface{}{"n": n, "sigs": sigs})
				}
			}
			// derived facts for every f with 3f < n (checked at the extreme f)
			f := (n - 1) / 3
			if !(3*(2*sm-n) > n) {
				viol(fmt.Sprintf("intersection-n%d", n), fmt.Sprintf("n=%d: two supermajorities of %d share only %d <= n/3", n, sm, 2*sm-n), map[string]interface{}{"n": n})
			}
			if !(2*(sm-f) > sm) || !(2*(sm-f) > n-f) {
				viol(fmt.Sprintf("honest-majority-n%d", n), fmt.Sprintf("n=%d f=%d: a supermajority of %d does not contain a majority of honest validators", n, f, sm), map[string]interface{}{"n": n})
			}
			if n >= 2 && !(tc+1 > f) {
				viol(fmt.Sprintf("trusted-honest-n%d", n), fmt.Sprintf("n=%d f=%d: %d signatures can all be faulty", n, f, tc+1), map[string]interface{}{"n": n})
			}
			if n%3 != 0 {
				nontrivial++
			}
			if n <= 4 || n == maxN {
				samples = append(samples, map[string]interface{}{"n": n, "SuperMajority": sm, "TrustCount": tc})
			}
			if len(rep.Violations) > 20 {
				break
			}
		}
		// (2) all add/remove sequences over a 5-peer universe (real keys), BFS over set states to depth 6 (8 thorough)
		depth := 6
		if th {
			depth = 8
		}
		univ := []*peers.Peer{}
		for i := 0; i < 5; i++ {
			univ = append(univ, peers.NewPeer(sim.PubHex(i), fmt.Sprintf("addr%d", i), fmt.Sprintf("n%d", i)))
		}
		type st struct {
			ps  *peers.PeerSet
			ref []string
			ops []string
		}
		keyOf := func(ref []string) string { return strings.Join(ref, ",") }
		seen := map[string]bool{}
		frontier := []st{{ps: peers.NewPeerSet([]*peers.Peer{}), ref: []string{}}}
		seen[""] = true
		bfsStates, bfsTrans := 1, 0
		for d := 0; d < depth; d++ {
			next := []st{}
			for _, s := range frontier {
				for i, p := range univ {
					for _, op := range []string{"add", "rm"} {
						var nps *peers.PeerSet
						ref := []string{}
						if op == "add" {
							nps = cloneSet(s.ps).WithNewPeer(peers.NewPeer(p.PubKeyHex, p.NetAddr, p.Moniker))
							ref = append(ref, s.ref...)
							has := false
							for _, k := range ref {
								if k == p.PubKeyString() {
									has = true
								}
							}
							if !has {
								ref = append(ref, p.PubKeyString())
							}
						} else {
							nps = s.ps.WithRemovedPeer(peers.NewPeer(p.PubKeyHex, p.NetAddr, p.Moniker))
							for _, k := range s.ref {
								if k != p.PubKeyString() {
									ref = append(ref, k)
								}
							}
						}
						bfsTrans++
						ops := append(append([]string{}, s.ops...), fmt.Sprintf("%s(%d)", op, i))
						got := nps.PubKeys()
						n := len(ref)
						bad := ""
						if keyOf(got) != keyOf(ref) {
							bad = fmt.Sprintf("members %v, reference %v", got, ref)
						} else if nps.Len() != n || len(nps.ByID) != n || len(nps.ByPubKey) != n {
							bad = fmt.Sprintf("Len=%d ByID=%d ByPubKey=%d, reference %d", nps.Len(), len(nps.ByID), len(nps.ByPubKey), n)
						} else if n > 0 && nps.SuperMajority() != leastGreaterThanTwoThirds(n) {
							bad = fmt.Sprintf("SuperMajority=%d for n=%d", nps.SuperMajority(), n)
						} else if n > 0 {
							tc := nps.TrustCount()
							for sigs := 0; sigs <= n; sigs++ {
								if b := trustWrong(n, sigs, sigs > tc); b != "" {
									bad = fmt.Sprintf("TrustCount=%d for n=%d: %s", tc, n, b)
								}
							}
						}
						if bad != "" {
							viol("set-ops", fmt.Sprintf("after %v: %s", ops, bad), map[string]interface{}{"ops": ops})
						}
						k := keyOf(ref)
						if !seen[k] {
							seen[k] = true
							bfsStates++
							next = append(next, st{ps: nps, ref: ref, ops: ops})
							if len(samples) < 12 {
								samples = append(samples, map[string]interface{}{"ops": ops, "members": len(ref), "SuperMajority": nps.SuperMajority(), "TrustCount": nps.TrustCount()})
							}
						}
					}
				}
			}
			frontier = next
		}
		// (3) acceptance decisions at the boundary: CheckBlock and SetAnchorBlock with t-1, t, t+1 valid distinct signatures, n = 1..10
		decisions := 0
		for n := 1; n <= 10; n++ {
			pl := []*peers.Peer{}
			ks := []*ecdsa.PrivateKey{}
			for i := 0; i < n; i++ {
				pl = append(pl, peers.NewPeer(sim.PubHex(i), fmt.Sprintf("addr%d", i), ""))
				ks = append(ks, sim.Key(i))
			}
			set := peers.NewPeerSet(pl)
			for sigs := 0; sigs <= n; sigs++ {
				store := hg.NewInmemStore(100)
				h := hg.NewHashgraph(store, hg.DummyInternalCommitCallback, discardLogger())
				h.Init(set)
				block := hg.NewBlock(0, 1, []byte("framehash"), pl, [][]byte{[]byte("tx")}, nil, 0)
				for i := 0; i < sigs; i++ {
					bs, err := block.Sign(ks[i])
					if err != nil {
						ev.Fail("sign: %v", err)
					}
					block.SetSignature(bs)
				}
				err := h.CheckBlock(block, set)
				decisions++
				if bad := trustWrong(n, sigs, err == nil); bad != "" {
					viol(fmt.Sprintf("checkblock-n%d-s%d", n, sigs), fmt.Sprintf("CheckBlock with %d of %d valid distinct signatures: %s", sigs, n, bad), map[string]interface{}{"n": n, "sigs": sigs})
				}
				store.SetBlock(block)
				h.SetAnchorBlock(block)
				decisions++
				if bad := trustWrong(n, sigs, h.AnchorBlock != nil); bad != "" {
					viol(fmt.Sprintf("anchor-n%d-s%d", n, sigs), fmt.Sprintf("SetAnchorBlock with %d of %d signatures: %s", sigs, n, bad), map[string]interface{}{"n": n, "sigs": sigs})
				}
			}
		}
		// (4) the same decisions inside running networks whose validator set changes: whenever a node offers a block as
		// fast-sync anchor (the one place where "trusted" has consequences) it must carry valid signatures of more than
		// one third of the distinct validators of the block's round, and every signature a node records must be by a
		// member of that round's set (C09's monitor, on the membership seeds, with the leaving validator signing on)
		clusterExecs, clusterSteps := 0, 0
		{
			type run struct {
				sc   string
				devs []sched.Dev
			}
			runs := []run{{scLeave4, nil}, {scTwoLeaves, nil}, {scJoinLeave, nil}, {scRejoin4, nil}, {scJoin3, nil}}
			for pos := 20; pos <= 84; pos += 8 {
				runs = append(runs, run{scLeave4, []sched.Dev{{Pos: pos, Alt: sched.Action{K: "BZ", A: 3, Tx: "valid"}, Ins: true}}})
			}
			for _, r := range runs {
				sc := sched.ScenarioByName(r.sc)
				x := sched.NewExec(sc, sched.MonitorFactory([]string{"C09b3", "C10"}, &mon.Stats{}))
				x.NoDigest = true
				devAt := map[int][]sched.Dev{}
				for _, d := range r.devs {
					devAt[d.Pos] = append(devAt[d.Pos], d)
				}
				for pos, a := range sc.Seed {
					for _, d := range devAt[pos] {
						x.Step(d.Alt)
					}
					x.Step(a)
				}
				x.FairSuffix(40)
				clusterExecs++
				clusterSteps += x.Steps
				for _, v := range x.Viol {
					// (every super-majority in the hashgraph is a count of witnesses: it is "more than 2n/3 of the
					// validators" only if every witness of a round was created by a member of that round's set)
					if v.Key == "anchor-undersigned" || v.Key == "signer-not-in-round-set" || v.Key == "witness-not-in-round-set" {
						viol("cluster:"+v.Key, fmt.Sprintf("%s: %s", r.sc, v.What), v.Replay)
					}
				}
				x.Close()
			}
		}
		// (5) the thresholds where they are used: every fame decision the hashgraph makes while a static DAG is inserted
		// event by event must also follow from the harness's own vote count over the n validators ("more than two
		// thirds of n concurring votes of strongly seen witnesses"; every fourth round a coin round)
		refTot := RefResult{}
		{
			srcs := []string{"named:funky", "named:funkystacked", "named:coinround", "named:outoforder", "harvest:" + scStatic3, "harvest:" + scStatic4, "harvest:" + scSilent4,
				"harvest:" + scSilent5, "harvest:" + scLate4, "harvest:" + scLaggards4, "harvest:" + scLaggards7, "harvest:" + scPart4, "harvest:" + scPart5, "harvest:slow:4:4:1:120", "harvest:slow:4:2:0:120",
				"harvest:irregular:4:183:200:0", "harvest:irregular:4:802:200:0"}
			nIrr := 16
			if th {
				nIrr = 48
			}
			for k := 0; k < nIrr; k++ {
				srcs = append(srcs, fmt.Sprintf("harvest:irregular:5:%d:100:0", k))
			}
			if th {
				for k := 0; k < 16; k++ {
					srcs = append(srcs, fmt.Sprintf("harvest:irregular:7:%d:100:0", k), fmt.Sprintf("harvest:irregular:6:%d:100:0", k))
				}
			}
			raw := make([]json.RawMessage, len(srcs))
			for i, s := range srcs {
				raw[i], _ = json.Marshal(RefItem{Source: s})
			}
			pool := explore.Pool{Mode: "refvote"}
			pool.Run(raw, func(r explore.PoolResult) {
				if r.Crashed != "" || r.Err != "" {
					ev.Fail("reference vote count: item %s failed in the harness: %s%s", string(raw[r.Index]), r.Crashed, r.Err)
				}
				var res RefResult
				json.Unmarshal(r.Res, &res)
				refTot.Prefixes += res.Prefixes
				refTot.Skipped += res.Skipped
				refTot.Decisions += res.Decisions
				refTot.Events += res.Events
				if res.Diff != "" {
					viol("vote-count:"+srcs[r.Index], srcs[r.Index]+": "+res.Diff, map[string]interface{}{"worker_mode": "refvote", "item": json.RawMessage(raw[r.Index])})
				}
			})
		}
		sort.Slice(rep.Violations, func(i, j int) bool { return rep.Violations[i].Key < rep.Violations[j].Key })
		cov := rep.Coverage
		cov["reference_vote_count"] = map[string]interface{}{"dags_events": refTot.Events, "prefixes": refTot.Prefixes, "prefixes_skipped_rounds_differ": refTot.Skipped, "fame_decisions_compared": refTot.Decisions}
		cov["cluster_executions_with_changing_validator_sets"] = clusterExecs
		cov["cluster_steps"] = clusterSteps
		cov["states"] = states + bfsStates
		cov["transitions"] = transitions + bfsTrans + decisions
		cov["traces_validated_against_impl"] = transitions + bfsTrans + decisions
		cov["evaluations"] = transitions + bfsTrans + decisions
		cov["distinct_nontrivial"] = nontrivial + bfsStates
		cov["exhaustive"] = true
		cov["samples"] = samples
		cov["rule"] = fmt.Sprintf("every n in 1..%d on a real PeerSet grown by WithNewPeer (non-trivial: n not divisible by 3, where floor/ceil formulas differ); BFS over all WithNewPeer/WithRemovedPeer sequences over a 5-key universe to depth %d with state = ordered member list (%d set states, %d transitions) against a list model; CheckBlock/SetAnchorBlock decisions with 0..n valid distinct signatures for n=1..10 (%d decisions); anchor blocks offered and signatures recorded by the nodes of 14 runs with leaves, joins, a re-join and a leaving validator that keeps signing (> 1/3 of the distinct validators of the block's round; signers and witness creators members of that round's set); every fame decision made while 33 (thorough 97) static DAGs of 3..7 validators are inserted event by event re-derived by the harness's own vote count over n (late witnesses excluded; see / strongly-see relations taken from the implementation)", maxN, depth, bfsStates, bfsTrans, decisions)
		rep.Assumptions = []string{"peers for the 1..100000 sweep use distinct synthetic 65-byte keys (no EC arithmetic needed: only set size matters)"}
		return rep.Finish()
	}
}
