package main

import (
	"encoding/hex"
	"encoding/json"
	"fmt"
	"os"
	"strings"

	"verif/harness/dag"
	"verif/harness/ev"
	"verif/harness/explore"
)

// refConsensus is the harness's own computation of rounds, witnesses and fame for a prefix of a static DAG of n
// creators (validator set = all n, fixed), written from the algorithm's definitions: ancestry by graph search,
// "strongly sees" by counting the creators that have an event between the two, thresholds as "more than two thirds
// of n". It mirrors the structure of the voting (votes of round i+1 = sees; later rounds collect the votes of the
// strongly seen witnesses of the previous round; every fourth round is a coin round).
type refConsensus struct {
	n     int
	sm    int // least integer > 2n/3
	evs   []dag.Ev
	idx   map[string]int
	anc   [][]bool // anc[a][b]: b is an ancestor of a (or a itself)
	round []int
	wit   []bool
	fame  map[int]int // witness event → 1 famous / 2 not famous (decided only)
	// ssOf / seeOf, when set, supply the implementation's own "strongly sees" / "sees" relations for the voting (rounds
	// and witnesses are still derived here from the graph): the vote counting and its thresholds are then judged on
	// their own, independently of how the implementation maintains its ancestry coordinates (known finding 12)
	ssOf  func(x, y int) (bool, bool)
	seeOf func(x, y int) (bool, bool)
}

func newRef(evs []dag.Ev, n int) *refConsensus { return newRefWith(evs, n, nil, nil) }

func newRefWith(evs []dag.Ev, n int, ssOf, seeOf func(x, y int) (bool, bool)) *refConsensus {
	r := &refConsensus{n: n, sm: 2*n/3 + 1, evs: evs, idx: map[string]int{}, fame: map[int]int{}, ssOf: ssOf, seeOf: seeOf}
	for i, e := range evs {
		r.idx[e.Hex] = i
	}
	m := len(evs)
	r.anc = make([][]bool, m)
	r.round = make([]int, m)
	r.wit = make([]bool, m)
	for i, e := range evs {
		row := make([]bool, m)
		row[i] = true
		for _, p := range []string{e.Self, e.Other} {
			if p == "" {
				continue
			}
			if j, ok := r.idx[p]; ok {
				for k, v := range r.anc[j] {
					if v {
						row[k] = true
					}
				}
			}
		}
		r.anc[i] = row
	}
	// rounds and witnesses, in topological order
	for i, e := range evs {
		pr := -1
		sp := -1
		for _, p := range []string{e.Self, e.Other} {
			if j, ok := r.idx[p]; ok && p != "" {
				if r.round[j] > pr {
					pr = r.round[j]
				}
			}
		}
		if j, ok := r.idx[e.Self]; ok && e.Self != "" {
			sp = j
		}
		if pr < 0 {
			r.round[i] = 0
			r.wit[i] = true
			continue
		}
		cnt := 0
		for w := 0; w < i; w++ {
			if r.wit[w] && r.round[w] == pr && r.stronglySees(i, w) {
				cnt++
			}
		}
		r.round[i] = pr
		if cnt >= r.sm {
			r.round[i] = pr + 1
		}
		r.wit[i] = sp < 0 || r.round[i] > r.round[sp]
	}
	r.decideFame()
	return r
}

// stronglySees: the creators that have an event z with y <= z <= x number more than two thirds of n.
func (r *refConsensus) stronglySees(x, y int) bool {
	if !r.anc[x][y] {
		return false
	}
	seen := map[int]bool{}
	for z := range r.evs {
		if r.anc[x][z] && r.anc[z][y] {
			seen[r.evs[z].CreatorIdx] = true
		}
	}
	return len(seen) >= r.sm
}

func (r *refConsensus) voteSees(y, x int) bool {
	if r.seeOf != nil {
		if v, ok := r.seeOf(y, x); ok {
			return v
		}
	}
	return r.anc[y][x]
}

func (r *refConsensus) voteStronglySees(y, w int) bool {
	if r.ssOf != nil {
		if v, ok := r.ssOf(y, w); ok {
			return v
		}
	}
	return r.stronglySees(y, w)
}

func (r *refConsensus) decideFame() {
	last := 0
	byRound := map[int][]int{}
	for i := range r.evs {
		if r.wit[i] {
			byRound[r.round[i]] = append(byRound[r.round[i]], i)
		}
		if r.round[i] > last {
			last = r.round[i]
		}
	}
	for i := 0; i <= last; i++ {
		for _, x := range byRound[i] {
			votes := map[int]bool{}
		voting:
			for j := i + 1; j <= last; j++ {
				for _, y := range byRound[j] {
					diff := j - i
					if diff == 1 {
						votes[y] = r.voteSees(y, x)
						continue
					}
					yays, nays := 0, 0
					for _, w := range byRound[j-1] {
						if r.voteStronglySees(y, w) {
							if votes[w] {
								yays++
							} else {
								nays++
							}
						}
					}
					v, t := false, nays
					if yays >= nays {
						v, t = true, yays
					}
					if diff%4 > 0 {
						if t >= r.sm {
							if v {
								r.fame[x] = 1
							} else {
								r.fame[x] = 2
							}
							break voting
						}
						votes[y] = v
					} else if t >= r.sm {
						votes[y] = v
					} else {
						votes[y] = middleBitOf(r.evs[y].Hex)
					}
				}
			}
		}
	}
}

// explain prints the reference's election of witness x.
func (r *refConsensus) explain(x int) string {
	out := fmt.Sprintf("witness %d (creator %d round %d); ", x, r.evs[x].CreatorIdx, r.round[x])
	byRound := map[int][]int{}
	last := 0
	for i := range r.evs {
		if r.wit[i] {
			byRound[r.round[i]] = append(byRound[r.round[i]], i)
		}
		if r.round[i] > last {
			last = r.round[i]
		}
	}
	votes := map[int]bool{}
	i := r.round[x]
	for j := i + 1; j <= last; j++ {
		for _, y := range byRound[j] {
			if j-i == 1 {
				votes[y] = r.anc[y][x]
				out += fmt.Sprintf("r%d y%d(c%d) sees=%v; ", j, y, r.evs[y].CreatorIdx, votes[y])
				continue
			}
			yays, nays := 0, 0
			ss := []int{}
			for _, w := range byRound[j-1] {
				if r.stronglySees(y, w) {
					ss = append(ss, w)
					if votes[w] {
						yays++
					} else {
						nays++
					}
				}
			}
			v := yays >= nays
			votes[y] = v
			out += fmt.Sprintf("r%d y%d(c%d) ss=%v yays=%d nays=%d; ", j, y, r.evs[y].CreatorIdx, ss, yays, nays)
		}
	}
	return out
}

func middleBitOf(ehex string) bool {
	raw, err := hex.DecodeString(strings.TrimPrefix(strings.TrimPrefix(ehex, "0X"), "0x"))
	if err != nil || len(raw) == 0 {
		return false
	}
	return raw[len(raw)/2] != 0
}

// compareWithRef inserts the DAG event by event into a real hashgraph (a consensus pass per event) and, after every
// insertion, compares what it has recorded with the reference computed on the same prefix: rounds and witness flags
// must be equal (if they are not, the prefix is only counted: the known finding about first-descendant entries makes
// the implementation assign lower rounds on some shapes), and every fame the implementation has decided must be decided
// by the reference too, with the same value. Returns a description of the first disagreement.
func compareWithRef(evs []dag.Ev, n int) (prefixes, skipped, decisions int, diff string) {
	inst := dag.Open(n, false, "", 10000)
	defer inst.Close()
	// A witness that reaches the node after its round's election was closed is never voted on (the implementation
	// records it as not famous): such witnesses are outside the comparison.
	closedAt := map[int]int{} // round → first prefix at which the implementation had closed its election
	late := map[string]bool{}
	for L := 1; L <= len(evs); L++ {
		if err, _ := inst.Insert(evs[L-1].Fresh()); err != nil {
			return prefixes, skipped, decisions, ""
		}
		ref := newRefWith(evs[:L], n, func(x, y int) (bool, bool) {
			v, err := inst.H.VStronglySee(evs[x].Hex, evs[y].Hex, 0)
			return v, err == nil
		}, func(x, y int) (bool, bool) {
			v, err := inst.H.VSee(evs[x].Hex, evs[y].Hex)
			return v, err == nil
		})
		prefixes++
		store := inst.N.Store
		same := true
		type wf struct{ fame, idx int }
		var implDecided []wf
		for rd := 0; rd <= store.LastRound() && same; rd++ {
			ri, err := store.GetRound(rd)
			if err != nil {
				continue
			}
			if c, closed := closedAt[rd]; closed {
				for hx, w := range ri.VCreated() {
					if w && ref.idx[hx] >= c {
						late[hx] = true // (positions in evs are insertion positions)
					}
				}
			} else if ri.VDecided() {
				closedAt[rd] = L
			}
			for hx, w := range ri.VCreated() {
				i, ok := ref.idx[hx]
				if !ok || ref.round[i] != rd || ref.wit[i] != w {
					same = false
					break
				}
			}
			for hx, f := range ri.VFame() {
				if f != 0 && !late[hx] {
					if i, ok := ref.idx[hx]; ok {
						implDecided = append(implDecided, wf{f, i})
					}
				}
			}
		}
		if !same {
			skipped++
			continue
		}
		for _, d := range implDecided {
			decisions++
			rf, ok := ref.fame[d.idx]
			if !ok {
				if os.Getenv("DBGREF_VERBOSE") != "" {
					fmt.Println(ref.explain(d.idx))
					for rd := 0; rd <= store.LastRound(); rd++ {
						if ri, err := store.GetRound(rd); err == nil {
							ws := []string{}
							for hx, f := range ri.VFame() {
								ws = append(ws, fmt.Sprintf("%d(c%d):%d", ref.idx[hx], evs[ref.idx[hx]].CreatorIdx, f))
							}
							fmt.Printf("impl round %d decided=%v witnesses %v\n", rd, ri.VDecided(), ws)
						}
					}
				}
				return prefixes, skipped, decisions, fmt.Sprintf("after %d of %d events the hashgraph has decided the fame of witness %s (creator %d, round %d) as %v; counting votes over the %d validators (a decision needs %d concurring votes of strongly seen witnesses) the election is still open", L, len(evs), evs[d.idx].Hex[:10], evs[d.idx].CreatorIdx, ref.round[d.idx], d.fame == 1, n, ref.sm)
			}
			if rf != d.fame {
				return prefixes, skipped, decisions, fmt.Sprintf("after %d of %d events the hashgraph has decided the fame of witness %s (creator %d, round %d) as %v; the reference count gives %v", L, len(evs), evs[d.idx].Hex[:10], evs[d.idx].CreatorIdx, ref.round[d.idx], d.fame == 1, rf == 1)
			}
		}
	}
	return prefixes, skipped, decisions, ""
}

// RefItem / RefResult: one DAG for the reference vote count.
type RefItem struct {
	Source string `json:"src"`
}
type RefResult struct {
	Prefixes, Skipped, Decisions, Events int
	Diff                                 string
	Viol                                 []ev.Violation `json:"viol"` // for --replay
}

func init() {
	explore.Register("refvote", func(spec json.RawMessage) (json.RawMessage, error) {
		var it RefItem
		if err := json.Unmarshal(spec, &it); err != nil {
			return nil, err
		}
		evs, n := loadDagSource(it.Source)
		res := RefResult{Events: len(evs)}
		if evs != nil {
			res.Prefixes, res.Skipped, res.Decisions, res.Diff = compareWithRef(evs, n)
		}
		if res.Diff != "" {
			res.Viol = []ev.Violation{{Property: "C19", Key: "vote-count:" + it.Source, What: res.Diff}}
		}
		return json.Marshal(res)
	})
	// dbgref <source>...: compare the implementation with the reference on every prefix of each DAG
	checks["dbgref"] = func(args []string) int {
		for _, src := range args {
			evs, n := loadDagSource(src)
			p, s, d, diff := compareWithRef(evs, n)
			fmt.Printf("%s: n=%d events=%d prefixes=%d skipped=%d decisions compared=%d %s\n", src, n, len(evs), p, s, d, diff)
		}
		return 0
	}
}
