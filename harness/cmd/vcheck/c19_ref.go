package main

import (
	"encoding/hex"
	"encoding/json"
	"fmt"
	"os"
	"strings"
	"time"

	"verif/harness/dag"
	"verif/harness/ev"
	"verif/harness/explore"
)

// refConsensus is the harness's own computation of rounds, witnesses and fame for a prefix of a static DAG of n
// creators (validator set = all n, fixed), written from the algorithm's definitions: ancestry by graph search,
// "strongly sees" by counting the creators that have an event between the two, thresholds as "more than two thirds
// of n". It mirrors the structure of the voting (votes of round i+1 = sees; later rounds collect the votes of the
// strongly seen witnesses of the previous round; every fourth round is a coin round).
type refConsensus struct {
	n     int
	sm    int // least integer > 2n/3
	evs   []dag.Ev
	idx   map[string]int
	anc   [][]bool // anc[a][b]: b is an ancestor of a (or a itself)
	round []int
	wit   []bool
	fame  map[int]int // witness event → 1 famous / 2 not famous (decided only)
	// ssOf / seeOf, when set, supply the implementation's own "strongly sees" / "sees" relations for the voting (rounds
	// and witnesses are still derived here from the graph): the vote counting and its thresholds are then judged on
	// their own, independently of how the implementation maintains its ancestry coordinates (known finding 12)
	ssOf  func(x, y int) (bool, bool)
	seeOf func(x, y int) (bool, bool)
}

func newRef(evs []dag.Ev, n int) *refConsensus { return newRefWith(evs, n, nil, nil) }

func newRefWith(evs []dag.Ev, n int, ssOf, seeOf func(x, y int) (bool, bool)) *refConsensus {
	r := &refConsensus{n: n, sm: 2*n/3 + 1, evs: evs, idx: map[string]int{}, fame: map[int]int{}, ssOf: ssOf, seeOf: seeOf}
	for i, e := range evs {
		r.idx[e.Hex] = i
	}
	m := len(evs)
	r.anc = make([][]bool, m)
	r.round = make([]int, m)
	r.wit = make([]bool, m)
	for i, e := range evs {
		row := make([]bool, m)
		row[i] = true
		for _, p := range []string{e.Self, e.Other} {
			if p == "" {
				continue
			}
			if j, ok := r.idx[p]; ok {
				for k, v := range r.anc[j] {
					if v {
						row[k] = true
					}
				}
			}
		}
		r.anc[i] = row
	}
	// rounds and witnesses, in topological order
	for i, e := range evs {
		pr := -1
		sp := -1
		for _, p := range []string{e.Self, e.Other} {
			if j, ok := r.idx[p]; ok && p != "" {
				if r.round[j] > pr {
					pr = r.round[j]
				}
			}
		}
		if j, ok := r.idx[e.Self]; ok && e.Self != "" {
			sp = j
		}
		if pr < 0 {
			r.round[i] = 0
			r.wit[i] = true
			continue
		}
		cnt := 0
		for w := 0; w < i; w++ {
			if r.wit[w] && r.round[w] == pr && r.stronglySees(i, w) {
				cnt++
			}
		}
		r.round[i] = pr
		if cnt >= r.sm {
			r.round[i] = pr + 1
		}
		r.wit[i] = sp < 0 || r.round[i] > r.round[sp]
	}
	r.decideFame()
	return r
}

// stronglySees: the creators that have an event z with y <= z <= x number more than two thirds of n.
func (r *refConsensus) stronglySees(x, y int) bool {
	if !r.anc[x][y] {
		return false
	}
	seen := map[int]bool{}
	for z := range r.evs {
		if r.anc[x][z] && r.anc[z][y] {
			seen[r.evs[z].CreatorIdx] = true
		}
	}
	return len(seen) >= r.sm
}

func (r *refConsensus) voteSees(y, x int) bool {
	if r.seeOf != nil {
		if v, ok := r.seeOf(y, x); ok {
			return v
		}
	}
	return r.anc[y][x]
}

func (r *refConsensus) voteStronglySees(y, w int) bool {
	if r.ssOf != nil {
		if v, ok := r.ssOf(y, w); ok {
			return v
		}
	}
	return r.stronglySees(y, w)
}

func (r *refConsensus) decideFame() {
	last := 0
	byRound := map[int][]int{}
	for i := range r.evs {
		if r.wit[i] {
			byRound[r.round[i]] = append(byRound[r.round[i]], i)
		}
		if r.round[i] > last {
			last = r.round[i]
		}
	}
	for i := 0; i <= last; i++ {
		for _, x := range byRound[i] {
			votes := map[int]bool{}
		voting:
			for j := i + 1; j <= last; j++ {
				for _, y := range byRound[j] {
					diff := j - i
					if diff == 1 {
						votes[y] = r.voteSees(y, x)
						continue
					}
					yays, nays := 0, 0
					for _, w := range byRound[j-1] {
						if r.voteStronglySees(y, w) {
							if votes[w] {
								yays++
							} else {
								nays++
							}
						}
					}
					v, t := false, nays
					if yays >= nays {
						v, t = true, yays
					}
					if diff%4 > 0 {
						if t >= r.sm {
							if v {
								r.fame[x] = 1
							} else {
								r.fame[x] = 2
							}
							break voting
						}
						votes[y] = v
					} else if t >= r.sm {
						votes[y] = v
					} else {
						votes[y] = middleBitOf(r.evs[y].Hex)
					}
				}
			}
		}
	}
}

// explain prints the reference's election of witness x.
func (r *refConsensus) explain(x int) string {
	out := fmt.Sprintf("witness %d (creator %d round %d); ", x, r.evs[x].CreatorIdx, r.round[x])
	byRound := map[int][]int{}
	last := 0
	for i := range r.evs {
		if r.wit[i] {
			byRound[r.round[i]] = append(byRound[r.round[i]], i)
		}
		if r.round[i] > last {
			last = r.round[i]
		}
	}
	votes := map[int]bool{}
	i := r.round[x]
	for j := i + 1; j <= last; j++ {
		for _, y := range byRound[j] {
			if j-i == 1 {
				votes[y] = r.anc[y][x]
				out += fmt.Sprintf("r%d y%d(c%d) sees=%v; ", j, y, r.evs[y].CreatorIdx, votes[y])
				continue
			}
			yays, nays := 0, 0
			ss := []int{}
			for _, w := range byRound[j-1] {
				if r.stronglySees(y, w) {
					ss = append(ss, w)
					if votes[w] {
						yays++
					} else {
						nays++
					}
				}
			}
			v := yays >= nays
			votes[y] = v
			out += fmt.Sprintf("r%d y%d(c%d) ss=%v yays=%d nays=%d; ", j, y, r.evs[y].CreatorIdx, ss, yays, nays)
		}
	}
	return out
}

func middleBitOf(ehex string) bool {
	raw, err := hex.DecodeString(strings.TrimPrefix(strings.TrimPrefix(ehex, "0X"), "0x"))
	if err != nil || len(raw) == 0 {
		return false
	}
	return raw[len(raw)/2] != 0
}

// compareWithRef inserts the DAG event by event into a real hashgraph (a consensus pass per event) and, after every
// insertion, compares what it has recorded with the reference computed on the same prefix: rounds and witness flags
// must be equal (if they are not, the prefix is only counted: the known finding about first-descendant entries makes
// the implementation assign lower rounds on some shapes), and every fame the implementation has decided must be decided
// by the reference too, with the same value. Returns a description of the first disagreement.
func compareWithRef(evs []dag.Ev, n int) (prefixes, skipped, decisions int, diff string) {
	inst := dag.Open(n, false, "", 10000)
	defer inst.Close()
	// A witness that reaches the node after its round's election was closed is never voted on (the implementation
	// records it as not famous): such witnesses are outside the comparison.
	closedAt := map[int]int{} // round → first prefix at which the implementation had closed its election
	late := map[string]bool{}
	for L := 1; L <= len(evs); L++ {
		if err, _ := inst.Insert(evs[L-1].Fresh()); err != nil {
			return prefixes, skipped, decisions, ""
		}
		ref := newRefWith(evs[:L], n, func(x, y int) (bool, bool) {
			v, err := inst.H.VStronglySee(evs[x].Hex, evs[y].Hex, 0)
			return v, err == nil
		}, func(x, y int) (bool, bool) {
			v, err := inst.H.VSee(evs[x].Hex, evs[y].Hex)
			return v, err == nil
		})
		prefixes++
		store := inst.N.Store
		same := true
		type wf struct{ fame, idx int }
		var implDecided []wf
		for rd := 0; rd <= store.LastRound() && same; rd++ {
			ri, err := store.GetRound(rd)
			if err != nil {
				continue
			}
			if c, closed := closedAt[rd]; closed {
				for hx, w := range ri.VCreated() {
					if w && ref.idx[hx] >= c {
						late[hx] = true // (positions in evs are insertion positions)
					}
				}
			} else if ri.VDecided() {
				closedAt[rd] = L
			}
			for hx, w := range ri.VCreated() {
				i, ok := ref.idx[hx]
				if !ok || ref.round[i] != rd || ref.wit[i] != w {
					same = false
					break
				}
			}
			for hx, f := range ri.VFame() {
				if f != 0 && !late[hx] {
					if i, ok := ref.idx[hx]; ok {
						implDecided = append(implDecided, wf{f, i})
					}
				}
			}
		}
		if !same {
			skipped++
			continue
		}
		for _, d := range implDecided {
			decisions++
			rf, ok := ref.fame[d.idx]
			if !ok {
				if os.Getenv("DBGREF_VERBOSE") != "" {
					fmt.Println(ref.explain(d.idx))
					for rd := 0; rd <= store.LastRound(); rd++ {
						if ri, err := store.GetRound(rd); err == nil {
							ws := []string{}
							for hx, f := range ri.VFame() {
								ws = append(ws, fmt.Sprintf("%d(c%d):%d", ref.idx[hx], evs[ref.idx[hx]].CreatorIdx, f))
							}
							fmt.Printf("impl round %d decided=%v witnesses %v\n", rd, ri.VDecided(), ws)
						}
					}
				}
				return prefixes, skipped, decisions, fmt.Sprintf("after %d of %d events the hashgraph has decided the fame of witness %s (creator %d, round %d) as %v; counting votes over the %d validators (a decision needs %d concurring votes of strongly seen witnesses) the election is still open", L, len(evs), evs[d.idx].Hex[:10], evs[d.idx].CreatorIdx, ref.round[d.idx], d.fame == 1, n, ref.sm)
			}
			if rf != d.fame {
				return prefixes, skipped, decisions, fmt.Sprintf("after %d of %d events the hashgraph has decided the fame of witness %s (creator %d, round %d) as %v; the reference count gives %v", L, len(evs), evs[d.idx].Hex[:10], evs[d.idx].CreatorIdx, ref.round[d.idx], d.fame == 1, rf == 1)
			}
		}
	}
	return prefixes, skipped, decisions, ""
}

// RefItem / RefResult: one DAG for the reference vote count.
type RefItem struct {
	Source string `json:"src"`
	Dyn    bool   `json:"dyn,omitempty"` // validator set changes: compareWithRefDyn
	Prop   string `json:"prop,omitempty"`
}
type RefResult struct {
	Prefixes, Skipped, Decisions, Events int
	Spanning                             int // (dyn) decisions whose election ran across a validator-set change
	Diff                                 string
	Viol                                 []ev.Violation `json:"viol"` // for --replay
}

func init() {
	explore.Register("refvote", func(spec json.RawMessage) (json.RawMessage, error) {
		var it RefItem
		if err := json.Unmarshal(spec, &it); err != nil {
			return nil, err
		}
		evs, n := loadDagSource(it.Source)
		res := RefResult{Events: len(evs)}
		prop := "C19"
		if evs != nil && it.Dyn {
			prop = "C10"
			res.Prefixes, res.Decisions, res.Spanning, res.Diff = compareWithRefDyn(evs, n)
		} else if evs != nil {
			res.Prefixes, res.Skipped, res.Decisions, res.Diff = compareWithRef(evs, n)
		}
		if res.Diff != "" {
			res.Viol = []ev.Violation{{Property: prop, Key: "vote-count:" + it.Source, What: res.Diff}}
		}
		return json.Marshal(res)
	})
	// dbgref <source>...: compare the implementation with the reference on every prefix of each DAG
	checks["dbgref"] = func(args []string) int {
		for _, src := range args {
			evs, n := loadDagSource(src)
			p, s, d, diff := compareWithRef(evs, n)
			fmt.Printf("%s: n=%d events=%d prefixes=%d skipped=%d decisions compared=%d %s\n", src, n, len(evs), p, s, d, diff)
		}
		return 0
	}
}

// compareWithRefDyn is the vote count for DAGs whose validator set changes. Rounds, witnesses and the validator-set
// table are read from the implementation (C10 judges the table against the delivered blocks); what is re-derived is
// every fame decision: votes of round i+1 = sees; a later round-j witness collects the votes of the round-(j-1)
// witnesses it strongly sees *over the validator set of round j-1*, and decides (or, every fourth round, keeps its
// vote) with more than two thirds of the validator set of round j. Each decision is re-derived when the
// implementation first reports it and once more on the final state (a validator set that became known later must not
// have changed the count of an earlier round).
func compareWithRefDyn(evs []dag.Ev, n int) (prefixes, decisions, spanning int, diff string) {
	inst := dag.Open(n, false, "", 10000)
	defer inst.Close()
	store := inst.N.Store
	pos := map[string]int{}
	for i, e := range evs {
		pos[e.Hex] = i
	}
	closedAt := map[int]int{}
	late := map[string]bool{}
	reported := map[string]int{}
	view := func() map[int]roundView {
		rv := map[int]roundView{}
		for rd := 0; rd <= store.LastRound(); rd++ {
			ri, err := store.GetRound(rd)
			if err != nil {
				continue
			}
			v := roundView{}
			for hx, w := range ri.VCreated() {
				if w {
					v.wits = append(v.wits, hx)
				}
			}
			if ps, err := store.GetPeerSet(rd); err == nil {
				v.size = ps.Len()
			}
			rv[rd] = v
		}
		return rv
	}
	// election of witness x of round i on the current state: 0 open, 1 famous, 2 not famous
	election := func(rv map[int]roundView, x string, i int) (res int, spans bool) {
		votes := map[string]bool{}
		last := store.LastRound()
		for j := i + 1; j <= last; j++ {
			sm := 2*rv[j].size/3 + 1
			if rv[j].size != rv[j-1].size {
				spans = true
			}
			for _, y := range rv[j].wits {
				if late[y] {
					continue
				}
				if j-i == 1 {
					v, _ := inst.H.VSee(y, x)
					votes[y] = v
					continue
				}
				yays, nays := 0, 0
				for _, w := range rv[j-1].wits {
					if late[w] {
						continue
					}
					if ss, _ := inst.H.VStronglySee(y, w, j-1); ss {
						if votes[w] {
							yays++
						} else {
							nays++
						}
					}
				}
				v, t := false, nays
				if yays >= nays {
					v, t = true, yays
				}
				if (j-i)%4 > 0 {
					if t >= sm {
						if v {
							return 1, spans
						}
						return 2, spans
					}
					votes[y] = v
				} else if t >= sm {
					votes[y] = v
				} else {
					votes[y] = middleBitOf(y)
				}
			}
		}
		return 0, spans
	}
	judge := func(L int, when string) string {
		rv := view()
		for rd := 0; rd <= store.LastRound(); rd++ {
			ri, err := store.GetRound(rd)
			if err != nil {
				continue
			}
			for hx, f := range ri.VFame() {
				if f == 0 || late[hx] {
					continue
				}
				if when == "first" {
					if _, seen := reported[hx]; seen {
						continue
					}
					reported[hx] = f
				}
				rf, sp := election(rv, hx, rd)
				decisions++
				if sp {
					spanning++
				}
				if rf != f {
					what := "the election is still open"
					if rf != 0 {
						what = fmt.Sprintf("the count gives %v", rf == 1)
					}
					return fmt.Sprintf("after %d of %d events (%s) the hashgraph has decided the fame of witness %s (round %d) as %v; counting the votes of strongly seen witnesses, each round over its own validator set (sizes by round: %s), %s", L, len(evs), when, hx[:10], rd, f == 1, sizesOf(rv), what)
				}
			}
		}
		return ""
	}
	L := 0
	for L = 1; L <= len(evs); L++ {
		if err, _ := inst.Insert(evs[L-1].Fresh()); err != nil {
			break
		}
		prefixes++
		for rd := 0; rd <= store.LastRound(); rd++ {
			ri, err := store.GetRound(rd)
			if err != nil {
				continue
			}
			if c, closed := closedAt[rd]; closed {
				for hx, w := range ri.VCreated() {
					if w && pos[hx] >= c {
						late[hx] = true
					}
				}
			} else if ri.VDecided() {
				closedAt[rd] = L
			}
		}
		if d := judge(L, "first"); d != "" {
			return prefixes, decisions, spanning, d
		}
	}
	return prefixes, decisions, spanning, judge(L-1, "final state")
}

type roundView struct {
	wits []string
	size int
}

func sizesOf(rv map[int]roundView) string {
	out := ""
	for r := 0; r < len(rv)+8; r++ {
		if v, ok := rv[r]; ok {
			out += fmt.Sprintf("%d:%d ", r, v.size)
		}
	}
	return strings.TrimSpace(out)
}

// refDynPre is C10's vote-count part: DAGs with joins and leaves.
func refDynPre(th bool) func(deadline time.Time) ([]ev.Violation, map[string]interface{}) {
	return func(deadline time.Time) ([]ev.Violation, map[string]interface{}) {
		srcs := []string{"harvest:" + scLeave4, "harvest:" + scJoin3, "harvest:" + scJoin2, "harvest:" + scTwoLeaves, "harvest:" + scJoinLeave, "harvest:" + scRejoin4, "harvest:" + scRefused3, "harvest:" + scUnknownItx}
		k1, k2 := 12, 8
		if th {
			k1, k2 = 48, 32
		}
		for k := 0; k < k1; k++ {
			srcs = append(srcs, fmt.Sprintf("harvest:irregular:5:%d:200:1", k), fmt.Sprintf("harvest:irregular:7:%d:200:1", k))
		}
		for k := 0; k < k2; k++ {
			srcs = append(srcs, fmt.Sprintf("harvest:irregular:4:%d:200:3", k), fmt.Sprintf("harvest:irregular:6:%d:200:1", k), fmt.Sprintf("harvest:irregular:3:%d:150:2", k), fmt.Sprintf("harvest:irregular:4:%d:200:1", k))
		}
		if th {
			for k := 0; k < 32; k++ {
				srcs = append(srcs, fmt.Sprintf("harvest:irregular:2:%d:150:2", k), fmt.Sprintf("harvest:irregular:5:%d:200:3", k), fmt.Sprintf("harvest:irregular:4:%d:200:2", k))
			}
		}
		raw := make([]json.RawMessage, len(srcs))
		for i, s := range srcs {
			raw[i], _ = json.Marshal(RefItem{Source: s, Dyn: true})
		}
		pool := explore.Pool{Mode: "refvote", Deadline: deadline}
		tot := RefResult{}
		var viol []ev.Violation
		pool.Run(raw, func(r explore.PoolResult) {
			if r.Crashed != "" || r.Err != "" {
				ev.Fail("vote count: item %s failed in the harness: %s%s", string(raw[r.Index]), r.Crashed, r.Err)
			}
			var res RefResult
			json.Unmarshal(r.Res, &res)
			tot.Prefixes += res.Prefixes
			tot.Decisions += res.Decisions
			tot.Spanning += res.Spanning
			tot.Events += res.Events
			if res.Diff != "" {
				viol = append(viol, ev.Violation{Property: "C10", Key: "vote-count:" + srcs[r.Index], What: srcs[r.Index] + ": " + res.Diff, Replay: map[string]interface{}{"worker_mode": "refvote", "item": json.RawMessage(raw[r.Index])}})
			}
		})
		return viol, map[string]interface{}{"vote_count_over_each_rounds_own_set": map[string]interface{}{"dags": len(srcs), "events": tot.Events, "prefixes": tot.Prefixes, "fame_decisions_rederived": tot.Decisions, "of_which_elections_across_a_set_change": tot.Spanning}}
	}
}

func init() {
	checks["dbgrefdyn"] = func(args []string) int {
		for _, src := range args {
			evs, n := loadDagSource(src)
			p, d, sp, diff := compareWithRefDyn(evs, n)
			fmt.Printf("%s: n=%d events=%d prefixes=%d decisions=%d spanning-a-set-change=%d %s\n", src, n, len(evs), p, d, sp, diff)
		}
		return 0
	}
}
