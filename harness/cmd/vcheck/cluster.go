package main

import (
	"encoding/json"
	"fmt"
	"os"
	"sort"
	"strconv"
	"time"

	"verif/harness/ev"
	"verif/harness/explore"
	"verif/harness/mon"
	"verif/harness/sched"
)

// Phase is a group of work items that is reported as one completed bound.
type Phase struct {
	Name  string
	Items []sched.Item
}

// ClusterCheck describes a property check on the cluster engine (E1).
type ClusterCheck struct {
	Prop        string
	Level       string
	Phases      []Phase
	Budget      time.Duration
	Rule        string
	Floor       int      // minimal number of non-trivial executions (vacuity guard)
	AlsoProps   []string // violations of these monitor ids count for this property too
	Assumptions []string
	Extra       func(cov map[string]interface{}, agg *Agg)
	// Pre runs before the phases (another engine's part of the check): its violations (already carrying the
	// property id and final key) and coverage entries are added to the report
	Pre func(deadline time.Time) ([]ev.Violation, map[string]interface{})
}

// Agg aggregates worker results.
type Agg struct {
	Execs, Steps, Pruned int
	Digests              map[uint64]bool
	FinalNT              map[uint64]bool
	Chains               map[string]bool
	Viol                 []ev.Violation
	MaxCycles            int
	NotQuiescent         int
	Samples              [][]string
	Counters             map[string]int
	Crashes              []string
}

func budget(def time.Duration) time.Duration {
	if s := os.Getenv("VERIF_BUDGET_S"); s != "" {
		if v, err := strconv.Atoi(s); err == nil {
			return time.Duration(v) * time.Second
		}
	}
	return def
}

func runCluster(cc ClusterCheck) int {
	rep := ev.NewReport(cc.Prop, cc.Level)
	agg := &Agg{Digests: map[uint64]bool{}, FinalNT: map[uint64]bool{}, Chains: map[string]bool{}, Counters: map[string]int{}}
	deadline := time.Now().Add(cc.Budget)
	completed := []string{}
	exhaustive := true
	phaseStats := []map[string]interface{}{}
	var preViol []ev.Violation
	var preCov map[string]interface{}
	if cc.Pre != nil {
		preViol, preCov = cc.Pre(deadline)
	}
	for _, ph := range cc.Phases {
		if time.Now().After(deadline) {
			exhaustive = false
			break
		}
		raw := make([]json.RawMessage, len(ph.Items))
		for i, it := range ph.Items {
			raw[i], _ = json.Marshal(it)
		}
		pool := explore.Pool{Mode: "cluster", Deadline: deadline}
		e0 := agg.Execs
		t0 := time.Now()
		handed := pool.Run(raw, func(r explore.PoolResult) {
			if r.Crashed != "" {
				agg.Crashes = append(agg.Crashes, fmt.Sprintf("item %s: %s", string(raw[r.Index]), r.Crashed))
				return
			}
			if r.Err != "" {
				agg.Crashes = append(agg.Crashes, fmt.Sprintf("item %s: %s", string(raw[r.Index]), r.Err))
				return
			}
			var res sched.Result
			if err := json.Unmarshal(r.Res, &res); err != nil {
				agg.Crashes = append(agg.Crashes, "bad result: "+err.Error())
				return
			}
			attachItem(res.Viol, "cluster", raw[r.Index])
			agg.Execs += res.Execs
			agg.Steps += res.Steps
			agg.Pruned += res.Pruned
			for _, d := range res.Digests {
				agg.Digests[d] = true
			}
			for _, d := range res.FinalNT {
				agg.FinalNT[d] = true
			}
			for _, c := range res.DistinctChain {
				agg.Chains[c] = true
			}
			for k, v := range res.Counters {
				agg.Counters[k] += v
			}
			if res.MaxCycles > agg.MaxCycles {
				agg.MaxCycles = res.MaxCycles
			}
			agg.NotQuiescent += res.NotQuiescent
			agg.Viol = append(agg.Viol, res.Viol...)
			if len(agg.Samples) < 3 && len(res.Sample) > 0 {
				agg.Samples = append(agg.Samples, res.Sample)
			}
		})
		phaseStats = append(phaseStats, map[string]interface{}{"phase": ph.Name, "items": len(ph.Items), "items_done": handed,
			"executions": agg.Execs - e0, "wall_s": time.Since(t0).Seconds()})
		if handed < len(ph.Items) {
			exhaustive = false
			fmt.Printf("[%s] phase %s: time budget reached after %d/%d items\n", cc.Prop, ph.Name, handed, len(ph.Items))
			break
		}
		completed = append(completed, ph.Name)
		fmt.Printf("[%s] phase %s complete: %d items, %d executions so far, %d distinct states, %.1fs\n", cc.Prop, ph.Name, len(ph.Items), agg.Execs, len(agg.Digests), time.Since(t0).Seconds())
	}
	if len(agg.Crashes) > 0 {
		for _, c := range agg.Crashes {
			fmt.Fprintln(os.Stderr, "worker problem:", c)
		}
		ev.Fail("%d work items failed in the harness (see above); no verdict", len(agg.Crashes))
	}
	want := map[string]bool{cc.Prop: true, "*": true}
	for _, p := range cc.AlsoProps {
		want[p] = true
	}
	for _, v := range agg.Viol {
		if !want[v.Property] {
			continue
		}
		v.Key = v.Property + ":" + v.Key
		if v.Property == "*" {
			v.Key = "panic-in-honest-run"
		}
		v.Property = cc.Prop
		rep.Violations = append(rep.Violations, v)
	}
	rep.Violations = append(rep.Violations, preViol...)
	sort.SliceStable(rep.Violations, func(i, j int) bool {
		return traceLen(rep.Violations[i]) < traceLen(rep.Violations[j])
	})
	cov := rep.Coverage
	cov["states"] = len(agg.Digests)
	cov["transitions"] = agg.Steps
	cov["traces_validated_against_impl"] = agg.Execs
	cov["evaluations"] = agg.Execs
	cov["distinct_nontrivial"] = len(agg.FinalNT)
	cov["rule"] = cc.Rule
	samples := []interface{}{}
	for _, s := range agg.Samples {
		samples = append(samples, s)
	}
	cov["samples"] = samples
	cov["exhaustive"] = exhaustive
	cov["bounds_completed"] = completed
	cov["phases"] = phaseStats
	cov["pruned_by_state_matching"] = agg.Pruned
	cov["distinct_block_chains_observed"] = len(agg.Chains)
	cov["counters"] = agg.Counters
	cov["max_fair_cycles_to_quiescence"] = agg.MaxCycles
	cov["explanation"] = "every execution is a run of the real Node/core/Hashgraph code under the harness scheduler; there is no abstract model, so traces_validated_against_impl = executions"
	if cc.Extra != nil {
		cc.Extra(cov, agg)
	}
	for k, v := range preCov {
		cov[k] = v
	}
	rep.Assumptions = append([]string{
		"harness transport delivers RPCs synchronously (real processRPC inline); interleavings inside a node are limited to its lock-release points",
		"ECDSA nonces derandomised (constant rand.Reader) and event timestamps from a harness clock; Go map iteration order is not controlled",
	}, cc.Assumptions...)
	if len(rep.Violations) == 0 && agg.Counters["nontrivial_execs"] < cc.Floor {
		rep.Finish()
		ev.Fail("vacuity guard: only %d non-trivial executions (floor %d)", agg.Counters["nontrivial_execs"], cc.Floor)
	}
	return rep.Finish()
}

func traceLen(v ev.Violation) int {
	if t, ok := v.Replay["trace"].([]interface{}); ok {
		return len(t)
	}
	if t, ok := v.Replay["trace"].([]string); ok {
		return len(t)
	}
	return 1 << 30
}

// ---------------------------------------------------------------------------
// item generators

// s1Items: all prefixes of length L over the alphabet of scenario name.
func s1Items(name string, depth, L int, mons []string) []sched.Item {
	sc := sched.ScenarioByName(name)
	k := len(sc.Alphabet)
	if L > depth {
		L = depth
	}
	var items []sched.Item
	var rec func(prefix []int)
	rec = func(prefix []int) {
		if len(prefix) == L {
			items = append(items, sched.Item{Scenario: name, Mode: "s1", Prefix: append([]int{}, prefix...), Depth: depth, Mons: mons})
			return
		}
		for a := 0; a < k; a++ {
			rec(append(prefix, a))
		}
	}
	rec(nil)
	return items
}

// devAlphabet lists the alternative actions for deviations over node set
// nodes. level 0: other pairs, truncated, one fault, submissions. level 1:
// everything (all faults, pull-only, nested deliveries, silent/heal).
func devAlphabet(nodes []int, level int, maxSilent int) []sched.Dev {
	var d []sched.Dev
	add := func(a sched.Action, ins bool) { d = append(d, sched.Dev{Alt: a, Ins: ins}) }
	for _, i := range nodes {
		for _, j := range nodes {
			if i == j {
				continue
			}
			add(sched.Action{K: "G", A: i, B: j}, false)
			add(sched.Action{K: "G", A: i, B: j, Lim: 1}, false)
			add(sched.Action{K: "G", A: i, B: j, Fault: "respE"}, false)
			if level >= 1 {
				add(sched.Action{K: "G", A: i, B: j, Lim: 3}, false)
				add(sched.Action{K: "G", A: i, B: j, Fault: "reqS"}, false)
				add(sched.Action{K: "G", A: i, B: j, Fault: "respS"}, false)
				add(sched.Action{K: "G", A: i, B: j, Fault: "reqE"}, false)
				add(sched.Action{K: "P", A: i, B: j}, false)
				add(sched.Action{K: "G", A: i, B: j, Nest: &sched.Action{K: "T", A: i}, NAt: "sync.post"}, false)
				add(sched.Action{K: "G", A: i, B: j, Nest: &sched.Action{K: "T", A: i}, NAt: "eager.pre"}, false)
				for _, k := range nodes {
					if k != i && k != j {
						add(sched.Action{K: "G", A: i, B: j, Nest: &sched.Action{K: "G", A: k, B: i}, NAt: "sync.post"}, false)
						add(sched.Action{K: "G", A: i, B: j, Nest: &sched.Action{K: "G", A: k, B: j}, NAt: "eager.pre"}, false)
					}
				}
			}
		}
		add(sched.Action{K: "T", A: i}, true)
		if maxSilent > 0 {
			add(sched.Action{K: "S", A: i}, true)
		}
	}
	return d
}

// s3Items: all executions with exactly d deviations (d = 0, 1, 2) from the
// seed of scenario name, deviations drawn from alpha at positions pos.
func s3Items(name string, d int, positions []int, alpha []sched.Dev, mons []string, suffix int) []sched.Item {
	var items []sched.Item
	base := sched.Item{Scenario: name, Mode: "s3", Mons: mons, Suffix: suffix}
	switch d {
	case 0:
		items = append(items, base)
	case 1:
		for _, p := range positions {
			for _, a := range alpha {
				it := base
				dv := a
				dv.Pos = p
				it.Devs = []sched.Dev{dv}
				items = append(items, it)
			}
		}
	case 2:
		for x, p := range positions {
			for _, q := range positions[x:] {
				for ai, a := range alpha {
					for bi, b := range alpha {
						if p == q && bi <= ai {
							continue
						}
						it := base
						d1, d2 := a, b
						d1.Pos, d2.Pos = p, q
						it.Devs = []sched.Dev{d1, d2}
						items = append(items, it)
					}
				}
			}
		}
	}
	return items
}

func seedPositions(name string, from, to, stride int) []int {
	sc := sched.ScenarioByName(name)
	if to <= 0 || to > len(sc.Seed) {
		to = len(sc.Seed)
	}
	var ps []int
	for p := from; p < to; p += stride {
		ps = append(ps, p)
	}
	return ps
}

func defaultMonitorFactory(names []string, st *mon.Stats) []mon.Monitor {
	var ms []mon.Monitor
	for _, n := range names {
		switch n {
		case "C01":
			ms = append(ms, mon.NewAgreement(st))
		case "C02":
			ms = append(ms, mon.NewFinality())
		case "C02seq":
			f := mon.NewFinality()
			f.SeqOnly = true
			ms = append(ms, f)
		default:
			if f, ok := monitorCtors[n]; ok {
				ms = append(ms, f(st))
			} else {
				panic("unknown monitor " + n)
			}
		}
	}
	return ms
}

var monitorCtors = map[string]func(st *mon.Stats) mon.Monitor{}

func init() { sched.MonitorFactory = defaultMonitorFactory }

// windowAlphabet is the S2 alphabet over node set nodes: every ordered gossip
// pair (plain, truncated to one event, eager response lost), a submission per
// node, and optionally a join / leave request.
func windowAlphabet(nodes []int, join, leave int) []sched.Action {
	var a []sched.Action
	for _, i := range nodes {
		for _, j := range nodes {
			if i != j {
				a = append(a, sched.Action{K: "G", A: i, B: j})
			}
		}
	}
	for _, i := range nodes {
		for _, j := range nodes {
			if i != j && (i+j)%2 == 1 {
				a = append(a, sched.Action{K: "G", A: i, B: j, Lim: 1})
			}
		}
		a = append(a, sched.Action{K: "T", A: i})
	}
	if leave >= 0 {
		a = append(a, sched.Action{K: "L", A: leave})
	}
	_ = join
	return a
}

// s2Items: for every window start w, all sequences of length k over the
// window alphabet (sharded by the first action), then the fair suffix.
func s2Items(name string, windows []int, k int, nalpha int, mons []string, suffix int) []sched.Item {
	var items []sched.Item
	for _, w := range windows {
		for first := 0; first < nalpha; first++ {
			if k >= 6 {
				// (items of a few hundred executions: an item must stay far below the pool's per-item limit on a loaded machine)
				for second := 0; second < nalpha; second++ {
					for third := 0; third < nalpha; third++ {
						items = append(items, sched.Item{Scenario: name, Mode: "s2", Cut: w, Depth: k, Prefix: []int{first, second, third}, Mons: mons, Suffix: suffix})
					}
				}
				continue
			}
			if k >= 4 {
				for second := 0; second < nalpha; second++ {
					items = append(items, sched.Item{Scenario: name, Mode: "s2", Cut: w, Depth: k, Prefix: []int{first, second}, Mons: mons, Suffix: suffix})
				}
				continue
			}
			items = append(items, sched.Item{Scenario: name, Mode: "s2", Cut: w, Depth: k, Prefix: []int{first}, Mons: mons, Suffix: suffix})
		}
	}
	return items
}
