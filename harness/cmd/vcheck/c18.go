package main

import (
	"fmt"
	"math"
	"strconv"
	"time"

	"verif/harness/ev"
	"verif/harness/mon"
	"verif/harness/sched"
	"verif/harness/sim"
)

var liarValues = []int64{math.MinInt64, -1, 0, sim.BaseTime - 1000000, sim.BaseTime + 1000000, math.MaxInt64}

func init() {
	monitorCtors["C18"] = func(st *mon.Stats) mon.Monitor { return mon.NewTimestamps() }
	// liar:<n>:<steps>:<nliars>:<const idx | -1 honest>[:<k>:<v>]*  — the last nliars nodes lie;
	// per-event deviations: the liar's k-th clock reading returns value v
	sched.RegisterScenario("liar", func(p []string) *sched.Scenario {
		at := func(i int) int { v, _ := strconv.Atoi(p[i]); return v }
		n, steps, nl, ci := at(1), at(2), at(3), at(4)
		sc := sched.Static(n, steps)
		dev := map[int]int64{}
		for i := 5; i+1 < len(p); i += 2 {
			dev[at(i)] = liarValues[at(i+1)]
		}
		sc.Cfg.Liars = map[int]func(int) int64{}
		for l := n - nl; l < n; l++ {
			idx := l
			sc.Cfg.Liars[idx] = func(tick int) int64 {
				if v, ok := dev[tick]; ok {
					return v
				}
				if ci < 0 {
					return sim.BaseTime + int64(tick)*10 + int64(idx)
				}
				return liarValues[ci]
			}
		}
		return sc
	})

	// skew:<n>:<steps>:<skew>:<silentAt>:<k>: honest validator n-1 has a clock that is <skew> ahead and stops for good at
	// seed position <silentAt>; validator n-2 lies: its first <k> clock readings are ahead by <skew> as well, later ones
	// are on time. The median of a later round is then lower than that of an earlier one.
	sched.RegisterScenario("skew", func(p []string) *sched.Scenario {
		at := func(i int) int { v, _ := strconv.Atoi(p[i]); return v }
		n, steps, skew, silentAt, k := at(1), at(2), int64(at(3)), at(4), at(5)
		sc := sched.StaticSilent(n, steps, n-1, silentAt)
		sc.Cfg.Skew = map[int]int64{n - 1: skew}
		liar := n - 2
		sc.Cfg.Liars = map[int]func(int) int64{liar: func(tick int) int64 {
			if tick <= k {
				return sim.BaseTime + int64(tick)*10 + skew
			}
			return sim.BaseTime + int64(tick)*10 + int64(liar)
		}}
		return sc
	})

	checks["C18"] = func(args []string) int {
		th := ev.Tier() == "thorough"
		mons := []string{"C01", "C18"}
		var ph []Phase
		add := func(name string, items []sched.Item) { ph = append(ph, Phase{Name: name, Items: items}) }
		var consts []sched.Item
		for _, cfg := range [][3]int{{4, 56, 1}, {5, 70, 1}, {7, 98, 2}} {
			for ci := range liarValues {
				consts = append(consts, sched.Item{Scenario: fmt.Sprintf("liar:%d:%d:%d:%d", cfg[0], cfg[1], cfg[2], ci), Mode: "s3", Mons: mons, Suffix: 40})
			}
		}
		add("constant lying clock: 6 values x {n=4 (1 liar), n=5 (1 liar), n=7 (2 liars)}", consts)
		var single []sched.Item
		for _, cfg := range [][2]int{{4, 56}, {5, 70}} {
			for k := 1; k <= 24; k++ {
				for v := range liarValues {
					single = append(single, sched.Item{Scenario: fmt.Sprintf("liar:%d:%d:1:-1:%d:%d", cfg[0], cfg[1], k, v), Mode: "s3", Mons: mons, Suffix: 40})
				}
			}
		}
		add("otherwise honest liar, one lying event: event k=1..24 x 6 values x {n=4,n=5}", single)
		var skews []sched.Item
		for _, silentAt := range []int{12, 16, 20, 24, 28, 32} {
			for _, k := range []int{4, 6, 8, 10, 12, 14, 16} {
				for _, sk := range []int{1000, -1000} {
					skews = append(skews, sched.Item{Scenario: fmt.Sprintf("skew:4:70:%d:%d:%d", sk, silentAt, k), Mode: "s3", Mons: mons, Suffix: 40})
				}
			}
		}
		add("an honest validator whose clock is 1000 ahead / behind stops at position p (6 values); the liar's first k readings (7 values) are off by the same amount, later ones on time: medians of consecutive rounds go down / up", skews)
		for _, ci := range []int{0, 5} {
			name := fmt.Sprintf("liar:4:56:1:%d", ci)
			stride := 3
			if th {
				stride = 1
			}
			add(fmt.Sprintf("S3 d<=1 n=4 liar constant %d (every %d. position, level 0)", liarValues[ci], stride), s3Items(name, 1, seedPositions(name, 0, 0, stride), devAlphabet(nodesOf(4), 0, 0), mons, 40))
		}
		if th {
			var double []sched.Item
			for k1 := 1; k1 <= 20; k1++ {
				for k2 := k1 + 1; k2 <= 20; k2++ {
					for v1 := range liarValues {
						for v2 := range liarValues {
							double = append(double, sched.Item{Scenario: fmt.Sprintf("liar:4:56:1:-1:%d:%d:%d:%d", k1, v1, k2, v2), Mode: "s3", Mons: mons, Suffix: 40})
						}
					}
				}
			}
			add("two lying events: k1<k2<=20 x 6x6 values, n=4", double)
			name := "liar:5:70:1:5"
			add("S3 d<=1 n=5 liar constant MaxInt64 (every 2nd position, level 0)", s3Items(name, 1, seedPositions(name, 0, 0, 2), devAlphabet(nodesOf(5), 0, 0), mons, 40))
		}
		b := 170 * time.Second
		if th {
			b = 40 * time.Minute
		}
		return runCluster(ClusterCheck{
			Prop: "C18", Level: "model_checking", Budget: budget(b), Phases: ph, Floor: 20,
			Rule: "liars are otherwise honest nodes whose clock (the NewEvent time seam) returns explorer-chosen values from {MinInt64,-1,0,T-1e6,T+1e6,MaxInt64}: one constant per run, every single (thorough: every pair of) lying event of an otherwise truthful liar, and all single schedule deviations for the two extreme constants. Oracle for every delivered block on every node: timestamp is a median (middle element / between the two middle elements) of the harness-recorded creation times of the famous witnesses of its round-received, and lies within [min,max] of the honest ones. counters.c18_blocks_liar_outside_honest_range counts the blocks where the lie mattered",
		})
	}
}
