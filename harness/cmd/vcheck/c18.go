package main

import (
	"fmt"
	hg "github.com/mosaicnetworks/babble/src/hashgraph"
	"github.com/mosaicnetworks/babble/src/net"
	"github.com/mosaicnetworks/babble/src/peers"
	"math"
	"strconv"
	"time"

	"verif/harness/ev"
	"verif/harness/mon"
	"verif/harness/sched"
	"verif/harness/sim"
)

var liarValues = []int64{math.MinInt64, -1, 0, sim.BaseTime - 1000000, sim.BaseTime + 1000000, math.MaxInt64}

func init() {
	monitorCtors["C18"] = func(st *mon.Stats) mon.Monitor { return mon.NewTimestamps() }
	// liar:<n>:<steps>:<nliars>:<const idx | -1 honest>[:<k>:<v>]*  — the last nliars nodes lie;
	// per-event deviations: the liar's k-th clock reading returns value v
	sched.RegisterScenario("liar", func(p []string) *sched.Scenario {
		at := func(i int) int { v, _ := strconv.Atoi(p[i]); return v }
		n, steps, nl, ci := at(1), at(2), at(3), at(4)
		sc := sched.Static(n, steps)
		dev := map[int]int64{}
		for i := 5; i+1 < len(p); i += 2 {
			dev[at(i)] = liarValues[at(i+1)]
		}
		sc.Cfg.Liars = map[int]func(int) int64{}
		for l := n - nl; l < n; l++ {
			idx := l
			sc.Cfg.Liars[idx] = func(tick int) int64 {
				if v, ok := dev[tick]; ok {
					return v
				}
				if ci < 0 {
					return sim.BaseTime + int64(tick)*10 + int64(idx)
				}
				return liarValues[ci]
			}
		}
		return sc
	})

	// skew:<n>:<steps>:<skew>:<silentAt>:<k>: honest validator n-1 has a clock that is <skew> ahead and stops for good at
	// seed position <silentAt>; validator n-2 lies: its first <k> clock readings are ahead by <skew> as well, later ones
	// are on time. The median of a later round is then lower than that of an earlier one.
	sched.RegisterScenario("skew", func(p []string) *sched.Scenario {
		at := func(i int) int { v, _ := strconv.Atoi(p[i]); return v }
		n, steps, skew, silentAt, k := at(1), at(2), int64(at(3)), at(4), at(5)
		sc := sched.StaticSilent(n, steps, n-1, silentAt)
		sc.Cfg.Skew = map[int]int64{n - 1: skew}
		liar := n - 2
		sc.Cfg.Liars = map[int]func(int) int64{liar: func(tick int) int64 {
			if tick <= k {
				return sim.BaseTime + int64(tick)*10 + skew
			}
			return sim.BaseTime + int64(tick)*10 + int64(liar)
		}}
		return sc
	})

	// BJ(A,B,Lim): an adversary holding the key of participant B (accepted as a joiner, not yet - or never - running as a
	// node) hands validator A that key's first event (index 0, no self-parent, other-parent = A's last event) with the
	// timestamp liarValues[Lim].
	sched.CustomActions["BJ"] = func(c *sim.Cluster, a sched.Action) error {
		var ferr error
		c.Custom(fmt.Sprintf("BJ(%d,%d,%d)", a.A, a.B, a.Lim), func() error { return nil })
		t := c.Nodes[a.A]
		op, err := t.Store.LastEventFrom(sim.PubHex(a.A))
		if err != nil {
			return err
		}
		e := hg.NewEvent([][]byte{[]byte("early")}, nil, nil, []string{"", op}, sim.PubOf(a.B), 0)
		e.Body.Timestamp = liarValues[a.Lim]
		if err := e.Sign(sim.Key(a.B)); err != nil {
			return err
		}
		if err := t.Node.VHashgraph().SetWireInfo(e); err != nil {
			return err
		}
		w := e.ToWire()
		_, ferr = c.ProcessRPC(a.A, "early first event of an accepted joiner", &net.EagerSyncRequest{FromID: peers.NewPeer(sim.PubHex(a.B), "", "").ID(), Events: []hg.WireEvent{w}}) // (sent by the joiner itself: the receiver builds on it)
		return ferr
	}
	// liarjoin:<pos>:<val>: four validators, validator 3 lies (constant liarValues[val]); key 5 asks validator 0 to join at
	// step 6 and is accepted, but never runs as a node: at seed position <pos> its first event, carrying the same extreme
	// timestamp, is handed to validator 0 (before the join takes effect if pos is early enough).
	sched.RegisterScenario("liarjoin", func(p []string) *sched.Scenario {
		at := func(i int) int { v, _ := strconv.Atoi(p[i]); return v }
		pos, val := at(1), at(2)
		sc := sched.Static(4, 70)
		var seed []sched.Action
		for i, a := range sc.Seed {
			if i == 6 {
				seed = append(seed, sched.Action{K: "J", A: 5, B: 0})
			}
			if len(p) > 3 && at(3) > 0 && i == pos-at(3) {
				seed = append(seed, sched.Action{K: "S", A: 2}) // one honest validator misses a few rounds
			}
			if len(p) > 3 && at(3) > 0 && i == pos+12 {
				seed = append(seed, sched.Action{K: "H", A: 2})
			}
			if i == pos {
				seed = append(seed, sched.Action{K: "BJ", A: 0, B: 5, Lim: val})
			}
			seed = append(seed, a)
		}
		sc.Seed = seed
		lie := func(int) int64 { return liarValues[val] }
		sc.Cfg.Liars = map[int]func(int) int64{3: lie, 5: lie}
		return sc
	})

	checks["C18"] = func(args []string) int {
		th := ev.Tier() == "thorough"
		mons := []string{"C01", "C18"}
		var ph []Phase
		add := func(name string, items []sched.Item) { ph = append(ph, Phase{Name: name, Items: items}) }
		var consts []sched.Item
		for _, cfg := range [][3]int{{4, 56, 1}, {5, 70, 1}, {7, 98, 2}} {
			for ci := range liarValues {
				consts = append(consts, sched.Item{Scenario: fmt.Sprintf("liar:%d:%d:%d:%d", cfg[0], cfg[1], cfg[2], ci), Mode: "s3", Mons: mons, Suffix: 40})
			}
		}
		add("constant lying clock: 6 values x {n=4 (1 liar), n=5 (1 liar), n=7 (2 liars)}", consts)
		var single []sched.Item
		for _, cfg := range [][2]int{{4, 56}, {5, 70}} {
			for k := 1; k <= 24; k++ {
				for v := range liarValues {
					single = append(single, sched.Item{Scenario: fmt.Sprintf("liar:%d:%d:1:-1:%d:%d", cfg[0], cfg[1], k, v), Mode: "s3", Mons: mons, Suffix: 40})
				}
			}
		}
		add("otherwise honest liar, one lying event: event k=1..24 x 6 values x {n=4,n=5}", single)
		var lj []sched.Item
		for pos := 12; pos <= 52; pos += map[bool]int{true: 1, false: 2}[th] {
			for _, val := range []int{0, 5} {
				for _, off := range []int{0, 3, 6, 9} {
					lj = append(lj, sched.Item{Scenario: fmt.Sprintf("liarjoin:%d:%d:%d", pos, val, off), Mode: "s3", Mons: mons, Suffix: 40})
				}
			}
		}
		add("one lying validator of 4 plus an accepted joiner whose first event (extreme timestamp) is sent to a validator at position p=12..52, before / after its join takes effect; one honest validator silent from p-3 / p-6 / p-9 to p+12, or not at all", lj)
		var skews []sched.Item
		for _, silentAt := range []int{12, 16, 20, 24, 28, 32} {
			for _, k := range []int{4, 6, 8, 10, 12, 14, 16} {
				for _, sk := range []int{1000, -1000} {
					skews = append(skews, sched.Item{Scenario: fmt.Sprintf("skew:4:70:%d:%d:%d", sk, silentAt, k), Mode: "s3", Mons: mons, Suffix: 40})
				}
			}
		}
		add("an honest validator whose clock is 1000 ahead / behind stops at position p (6 values); the liar's first k readings (7 values) are off by the same amount, later ones on time: medians of consecutive rounds go down / up", skews)
		for _, ci := range []int{0, 5} {
			name := fmt.Sprintf("liar:4:56:1:%d", ci)
			stride := 3
			if th {
				stride = 1
			}
			add(fmt.Sprintf("S3 d<=1 n=4 liar constant %d (every %d. position, level 0)", liarValues[ci], stride), s3Items(name, 1, seedPositions(name, 0, 0, stride), devAlphabet(nodesOf(4), 0, 0), mons, 40))
		}
		if th {
			var double []sched.Item
			for k1 := 1; k1 <= 20; k1++ {
				for k2 := k1 + 1; k2 <= 20; k2++ {
					for v1 := range liarValues {
						for v2 := range liarValues {
							double = append(double, sched.Item{Scenario: fmt.Sprintf("liar:4:56:1:-1:%d:%d:%d:%d", k1, v1, k2, v2), Mode: "s3", Mons: mons, Suffix: 40})
						}
					}
				}
			}
			add("two lying events: k1<k2<=20 x 6x6 values, n=4", double)
			name := "liar:5:70:1:5"
			add("S3 d<=1 n=5 liar constant MaxInt64 (every 2nd position, level 0)", s3Items(name, 1, seedPositions(name, 0, 0, 2), devAlphabet(nodesOf(5), 0, 0), mons, 40))
		}
		b := 170 * time.Second
		if th {
			b = 40 * time.Minute
		}
		return runCluster(ClusterCheck{
			Prop: "C18", Level: "model_checking", Budget: budget(b), Phases: ph, Floor: 20,
			Rule: "liars are otherwise honest nodes whose clock (the NewEvent time seam) returns explorer-chosen values from {MinInt64,-1,0,T-1e6,T+1e6,MaxInt64}: one constant per run, every single (thorough: every pair of) lying event of an otherwise truthful liar, and all single schedule deviations for the two extreme constants. Oracle for every delivered block on every node: timestamp is a median (middle element / between the two middle elements) of the harness-recorded creation times of the famous witnesses of its round-received, and lies within [min,max] of the honest ones. counters.c18_blocks_liar_outside_honest_range counts the blocks where the lie mattered",
		})
	}
}
