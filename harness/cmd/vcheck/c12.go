package main

import (
	"bytes"
	"crypto/sha256"
	"encoding/json"
	"fmt"
	"os"
	"sort"
	"strings"
	"time"

	hg "github.com/mosaicnetworks/babble/src/hashgraph"
	"github.com/mosaicnetworks/babble/src/net"
	"github.com/mosaicnetworks/babble/src/node/state"
	"verif/harness/ev"
	"verif/harness/explore"
	"verif/harness/mon"
	"verif/harness/sched"
	"verif/harness/sim"
	"verif/harness/tamper"
)

// c12 scenario: 4 genesis validators; node 3 goes silent early (lagging, with
// history), key 4 joins with fast-sync (fresh joiner, catching up), nodes 0-2
// keep going until anchors exist.
func c12Build(steps int) *sched.Exec { return c12BuildN(4, steps) }

// c12BuildN: n=4 is the scenario above; n=3 has no lagging validator (two of three cannot make progress alone):
// three validators and a fast-sync joiner (key 3).
func c12BuildN(n, steps int) *sched.Exec {
	if n == 3 {
		seed := sched.FairSeed(nodesOf(3), 8, 4)
		seed = append(seed, sched.Action{K: "Start", A: 3, B: 0, Lim: 1}, sched.Action{K: "J", A: 3, B: 0})
		seed = append(seed, sched.FairSeed(nodesOf(3), steps, 4)...)
		sc := &sched.Scenario{Name: "c12n3", Cfg: sim.Config{N: 3}, Asked: map[int]int{3: 0}}
		x := sched.NewExec(sc, nil)
		x.NoDigest = true
		for _, a := range seed {
			x.Step(a)
		}
		return x
	}
	seed := sched.FairSeed(nodesOf(4), 8, 4)
	seed = append(seed, sched.Action{K: "S", A: 3}, sched.Action{K: "Start", A: 4, B: 0, Lim: 1}, sched.Action{K: "J", A: 4, B: 0})
	seed = append(seed, sched.FairSeed(nodesOf(3), steps, 4)...)
	seed = append(seed, sched.Action{K: "H", A: 3})
	// key 5: a second newcomer with fast-sync that has not asked anybody yet (state Joining)
	seed = append(seed, sched.Action{K: "Start", A: 5, B: 0, Lim: 1})
	sc := &sched.Scenario{Name: "c12", Cfg: sim.Config{N: 4}, Asked: map[int]int{4: 0}}
	x := sched.NewExec(sc, nil)
	x.NoDigest = true
	for _, a := range seed {
		x.Step(a)
	}
	return x
}

// validFF asks node `server` for its fast-forward response (real processRPC).
func validFF(c *sim.Cluster, server, from int) *net.FastForwardResponse {
	resp, err := c.ProcessRPC(server, "capture ff", &net.FastForwardRequest{FromID: c.Nodes[from].Peer.ID()})
	if err != nil || resp == nil {
		return nil
	}
	return tamper.Copy(resp.(*net.FastForwardResponse)).(*net.FastForwardResponse)
}

// ffPredicate is the harness's own acceptance predicate.
func ffPredicate(block *hg.Block, frame *hg.Frame) (bool, string) {
	fh, err := frame.Hash()
	if err != nil || !bytes.Equal(fh, block.Body.FrameHash) {
		return false, "frame does not hash to the block's frame hash"
	}
	h := []byte{}
	members := map[string]bool{}
	for _, p := range frame.Peers {
		if p == nil {
			return false, "nil peer"
		}
		hh := sha256.New()
		hh.Write(h)
		hh.Write(p.PubKeyBytes())
		h = hh.Sum(nil)
		members[p.PubKeyString()] = true
	}
	if !bytes.Equal(h, block.Body.PeersHash) {
		return false, "frame's validator set does not hash to the block's peer-set hash"
	}
	dg := mon.JSONDigest(&block.Body)
	valid := map[string]bool{}
	for k, sig := range block.Signatures {
		ku := strings.ToUpper(k)
		if members[ku] && mon.VerifySig(ku, dg, sig) {
			valid[ku] = true
		}
	}
	n := len(members)
	if !(3*len(valid) > n) || len(valid) < 1 {
		return false, fmt.Sprintf("valid signatures of %d distinct members of %d (need > n/3)", len(valid), n)
	}
	return true, ""
}

type FFItem struct {
	Target int    `json:"target"` // 4 joiner, 3 lagging, 0 ahead
	Level  string `json:"level"`  // core | node | forged-core | forged-node
	From   int    `json:"from"`
	To     int    `json:"to"`
	Stride int    `json:"stride"`
	N      int    `json:"n,omitempty"`      // 3: the three-validator variant of the scenario (default 4)
	Steps  int    `json:"steps,omitempty"`  // length of the base history after the join request (default 48)
	Server int    `json:"server,omitempty"` // which validator's response is the base (default 1)
}

// c12Bases: further (history length, serving validator) pairs whose anchors lie elsewhere (presented to the joiner at both seams, to the lagging validator at the core seam): an early one (the joiner
// accepted but not yet effective: the frame's peer-set history has a future entry), later ones (the joiner effective;
// more blocks, other roots), served by other validators than the default.
var c12Bases = [][2]int{{12, 0}, {16, 2}, {20, 0}, {24, 2}, {28, 0}, {34, 2}}

func (it FFItem) steps() int {
	if it.Steps > 0 {
		return it.Steps
	}
	return 48
}

func (it FFItem) server() int {
	if it.Steps > 0 {
		return it.Server
	}
	return 1
}

type FFResult struct {
	Attempts int            `json:"attempts"`
	Total    int            `json:"total"`
	Accepted int            `json:"accepted"`
	Refused  int            `json:"refused"`
	Viol     []ev.Violation `json:"viol,omitempty"`
	Samples  []string       `json:"samples,omitempty"`
	Classes  map[string]int `json:"classes"`
}

func appDigest(n *sim.SimNode) string {
	return fmt.Sprintf("%x/%d/%d", n.App.State, len(n.App.Restores), len(n.App.Commits))
}

func init() {
	explore.Register("ff", func(spec json.RawMessage) (json.RawMessage, error) {
		var it FFItem
		if err := json.Unmarshal(spec, &it); err != nil {
			return nil, err
		}
		res := &FFResult{Classes: map[string]int{}}
		prop := "C12"
		if strings.HasPrefix(it.Level, "forged") {
			prop = "C14"
		}
		seen := map[string]bool{}
		viol := func(key, what string, rp map[string]interface{}) {
			if seen[key] {
				return
			}
			seen[key] = true
			res.Viol = append(res.Viol, ev.Violation{Property: prop, Key: key, What: what, Replay: rp})
		}
		if it.Level == "forged-refused" {
			runForgedRefused(res, viol)
			return json.Marshal(res)
		}
		var x *sched.Exec
		var base *net.FastForwardResponse
		build := func() {
			if x != nil {
				x.Close()
			}
			if it.N == 3 {
				// short enough for the anchor to lie before the joiner's effective round (a three-member set)
				x = c12BuildN(3, 26)
			} else {
				x = c12Build(it.steps())
			}
			base = validFF(x.C, it.server(), it.Target)
			if it.Level == "node" || it.Level == "forged-node" {
				if x.C.Nodes[it.Target].Node.GetState() != state.CatchingUp {
					x.C.Nodes[it.Target].Node.VTransition(state.CatchingUp)
				}
			}
		}
		build()
		defer func() { x.Close() }()
		if base == nil {
			return nil, fmt.Errorf("no anchor at the serving node")
		}
		if it.N == 3 && len(base.Frame.Peers) != 3 {
			return nil, fmt.Errorf("the three-validator base offers an anchor with %d validators", len(base.Frame.Peers))
		}
		var muts []tamper.Mut
		var forged []*net.FastForwardResponse
		var forgedNames []string
		if prop == "C12" {
			muts = tamper.Enumerate(base, [][]byte{sim.PubOf(9)})
			res.Total = len(muts)
		} else {
			forged, forgedNames = forgeries()
			res.Total = len(forged)
		}
		known := func(c *sim.Cluster, t int) map[string]bool {
			ks := map[string]bool{}
			n := c.Nodes[t]
			for _, p := range c.Genesis {
				ks[p.PubKeyString()] = true
			}
			// the peer list the node was configured with (not the list it holds now: what the node
			// lets in there at run time is part of what is being checked)
			for _, k := range n.Configured {
				ks[k] = true
			}
			all, _ := n.Node.GetAllValidatorSets()
			for _, ps := range all {
				for _, p := range ps {
					ks[p.PubKeyString()] = true
				}
			}
			return ks
		}
		attempt := func(label string, msg *net.FastForwardResponse) {
			res.Attempts++
			fmt.Fprintf(os.Stderr, "ATTEMPT %s\n", label)
			c := x.C
			t := c.Nodes[it.Target]
			before := c.DataDigest()
			ab := appDigest(t)
			rp := map[string]interface{}{"target": it.Target, "level": it.Level, "substitution": label}
			okPred, why := ffPredicate(&msg.Block, &msg.Frame)
			if prop == "C12" && okPred && base != nil && bytes.Equal(mon.JSONDigest(&msg.Block.Body), mon.JSONDigest(&base.Block.Body)) &&
				!bytes.Equal(mon.JSONDigest(&msg.Frame), mon.JSONDigest(&base.Frame)) {
				// the repository's own Frame.Hash is not taken on trust: the block body is the served one, so the only
				// frame its frame hash commits to is the served frame; any frame that differs from it (in the harness's
				// own encoding of every exported field) is a tampered one, whatever Frame.Hash says
				okPred, why = false, "the frame differs from the one the (unchanged) signed block body commits to, in a part the frame hash does not notice"
			}
			trusted := false
			if prop == "C14" {
				ks := known(c, it.Target)
				dg := mon.JSONDigest(&msg.Block.Body)
				for k, sig := range msg.Block.Signatures {
					if ks[strings.ToUpper(k)] && mon.VerifySig(strings.ToUpper(k), dg, sig) {
						trusted = true
					}
				}
			}
			var err error
			if strings.HasSuffix(it.Level, "core") {
				blk, frm := msg.Block, msg.Frame
				func() {
					defer func() {
						if r := recover(); r != nil {
							err = fmt.Errorf("panic: %v", r)
							res.Classes["panic (C08's subject)"]++
						}
					}()
					err = t.Node.VCoreFastForward(&blk, &frm)
				}()
			} else if it.Level == "forged-join" {
				// the newcomer (Joining) asks a hostile peer to join: the peer answers by itself "accepted" with a
				// peer list made of the forged validator set, then serves the forged fast-forward response
				hostile := &sim.Plan{Answer: func(kind string, args interface{}) (interface{}, bool) {
					switch kind {
					case "join":
						return &net.JoinResponse{FromID: c.Nodes[0].Peer.ID(), Accepted: true, AcceptedRound: 0, Peers: msg.Frame.Peers}, true
					case "ff":
						return tamper.Copy(msg), true
					}
					return nil, false
				}}
				if jerr := c.Join(it.Target, hostile); jerr != nil {
					err = fmt.Errorf("join: %v", jerr)
				} else if st := t.Node.GetState(); st != state.CatchingUp {
					err = fmt.Errorf("after the accepted join the node is %s", st)
				} else {
					err = c.FastForward(it.Target, hostile)
				}
				if c.Panic != "" {
					res.Classes["panic (C08's subject)"]++
					build()
					return
				}
			} else {
				plan := &sim.Plan{ForceOK: true, MutateResp: func(kind string, resp interface{}) interface{} {
					if kind != "ff" {
						return resp
					}
					if prop == "C14" {
						// the forger answers instead of (or on top of) the honest peers: highest block index wins
						return msg
					}
					return msg
				}}
				if prop == "C12" {
					plan.FFFrom = 2 // only node 1 answers (with the tampered response)
				}

				err = c.FastForward(it.Target, plan)
				if c.Panic != "" {
					res.Classes["panic (C08's subject)"]++
					build()
					return
				}
			}
			if err == nil {
				res.Accepted++
				res.Classes["accepted"]++
				if prop == "C12" && !okPred {
					viol("accepted-inconsistent:"+classOf(label), fmt.Sprintf("fast-forward response with %s was adopted by node %d although %s", label, it.Target, why), rp)
				}
				if prop == "C14" && !trusted {
					viol("adopted-strangers-snapshot:"+it.Level, fmt.Sprintf("node %d adopted a fast-forward response (%s) whose valid signatures all come from keys outside its configured peers, genesis peers and stored validator sets", it.Target, label), rp)
				}
				build()
				return
			}
			res.Refused++
			res.Classes["refused"]++
			changed := c.DataDigest() != before
			appChanged := appDigest(t) != ab
			if it.Level == "forged-join" && !appChanged {
				build() // the join itself moved the node on; the next attempt starts from a newcomer again
				return
			}
			if appChanged {
				viol("refused-but-application-changed:"+it.Level, fmt.Sprintf("node %d refused the response with %s (%v) but its application was already restored from the snapshot", it.Target, label, err), rp)
			} else if changed {
				viol("refused-but-state-changed:"+classOf(label), fmt.Sprintf("node %d refused the response with %s (%v) but its hashgraph/store/validator sets changed", it.Target, label, err), rp)
			}
			if changed || appChanged {
				build()
			}
		}
		if prop == "C12" {
			if it.To > len(muts) {
				it.To = len(muts)
			}
			for k := it.From; k < it.To; k++ {
				m := muts[k]
				msg := tamper.Apply(base, m)
				if msg == nil {
					continue
				}
				if len(res.Samples) < 5 {
					res.Samples = append(res.Samples, m.String())
				}
				attempt(m.String(), msg.(*net.FastForwardResponse))
			}
			if it.From == 0 {
				// the untampered response, and targeted signature-map attacks
				attempt("unmodified", tamper.Copy(base).(*net.FastForwardResponse))
				for name, f := range signatureAttacks() {
					cp := tamper.Copy(base).(*net.FastForwardResponse)
					if f(cp) {
						attempt(name, cp)
					}
				}
			}
		} else {
			// positive control: the honest network's own anchor is adopted by this target at this seam
			{
				c := x.C
				t := c.Nodes[it.Target]
				ctl := tamper.Copy(base).(*net.FastForwardResponse)
				var cerr error
				if strings.HasSuffix(it.Level, "core") {
					cerr = t.Node.VCoreFastForward(&ctl.Block, &ctl.Frame)
				} else if it.Level == "forged-join" {
					// control: the same sequence with an honest answer (accepted, the real peer list) and the honest anchor
					honest := &sim.Plan{Answer: func(kind string, args interface{}) (interface{}, bool) {
						switch kind {
						case "join":
							return &net.JoinResponse{FromID: c.Nodes[0].Peer.ID(), Accepted: true, AcceptedRound: 0, Peers: c.Nodes[0].Node.GetPeers()}, true
						case "ff":
							return tamper.Copy(ctl), true
						}
						return nil, false
					}}
					if cerr = c.Join(it.Target, honest); cerr == nil {
						cerr = c.FastForward(it.Target, honest)
					}
				} else {
					cerr = c.FastForward(it.Target, &sim.Plan{FFFrom: 2})
				}
				if cerr == nil {
					res.Classes["control: honest anchor adopted"]++
				} else {
					res.Classes["control: honest anchor refused ("+cerr.Error()+")"]++
				}
				build()
			}
			for k := range forged {
				if len(res.Samples) < 5 {
					res.Samples = append(res.Samples, forgedNames[k])
				}
				attempt(forgedNames[k], tamper.Copy(forged[k]).(*net.FastForwardResponse))
			}
		}
		return json.Marshal(res)
	})

	run := func(prop string) int {
		th := ev.Tier() == "thorough"
		rep := ev.NewReport(prop, "exploration")
		var items []FFItem
		var basesInfo []string
		if prop == "C12" {
			probe := c12Build(48)
			base := validFF(probe.C, 1, 0)
			probe.Close()
			if base != nil {
				basesInfo = append(basesInfo, fmt.Sprintf("48 steps, validator 1: block %d (round %d), %d validators, %d peer-set entries", base.Block.Index(), base.Block.RoundReceived(), len(base.Frame.Peers), len(base.Frame.PeerSets)))
			}
			if base == nil {
				ev.Fail("C12: no anchor in the base scenario")
			}
			n := len(tamper.Enumerate(base, [][]byte{sim.PubOf(9)}))
			chunk := 30
			// a self-consistent, sufficiently signed response none of whose signers the node knows is refused too
			// (C14): C12's "a refused response leaves ... the application untouched" is judged on those as well
			items = append(items, FFItem{Target: 4, Level: "forged-node"}, FFItem{Target: 3, Level: "forged-node"})
			// three validators (the smallest set in which one signature is not more than a third): the untampered
			// response and the signature-map attacks only
			items = append(items, FFItem{N: 3, Target: 3, Level: "core"}, FFItem{N: 3, Target: 3, Level: "node"})
			for _, target := range []int{4, 3, 0} {
				for _, lvl := range []string{"core", "node"} {
					if lvl == "node" && target == 0 && !th {
						continue
					}
					for from := 0; from < n; from += chunk {
						items = append(items, FFItem{Target: target, Level: lvl, From: from, To: from + chunk})
					}
				}
			}
			// further base triples (other anchors, other serving validators), at the core seam
			for _, b := range c12Bases {
				p2 := c12Build(b[0])
				base2 := validFF(p2.C, b[1], 4)
				p2.Close()
				if base2 == nil {
					basesInfo = append(basesInfo, fmt.Sprintf("%d steps, validator %d: no anchor yet", b[0], b[1]))
					continue // no anchor yet in that history: nothing to present
				}
				n2 := len(tamper.Enumerate(base2, [][]byte{sim.PubOf(9)}))
				basesInfo = append(basesInfo, fmt.Sprintf("%d steps, validator %d: block %d (round %d), %d validators, %d peer-set entries, %d substitutions", b[0], b[1], base2.Block.Index(), base2.Block.RoundReceived(), len(base2.Frame.Peers), len(base2.Frame.PeerSets), n2))
				for _, target := range []int{4, 3} {
					if target == 3 && !th && b[0] != 30 {
						continue
					}
					for from := 0; from < n2; from += chunk {
						items = append(items, FFItem{Target: target, Level: "core", From: from, To: from + chunk, Steps: b[0], Server: b[1]})
						if target == 4 {
							// and through the joiner's own Node.fastForward (whoever answers may relay any validator's response)
							items = append(items, FFItem{Target: target, Level: "node", From: from, To: from + chunk, Steps: b[0], Server: b[1]})
						}
					}
				}
			}
		} else {
			for _, target := range []int{4, 3, 0} {
				items = append(items, FFItem{Target: target, Level: "forged-core"}, FFItem{Target: target, Level: "forged-node"})
			}
			items = append(items, FFItem{Target: 5, Level: "forged-join"}, FFItem{Target: 2, Level: "forged-refused"})
		}
		raw := make([]json.RawMessage, len(items))
		for i, it := range items {
			raw[i], _ = json.Marshal(it)
		}
		bud := budget(map[bool]time.Duration{false: 170 * time.Second, true: 30 * time.Minute}[th])
		pool := explore.Pool{Mode: "ff", Deadline: time.Now().Add(bud), ItemTimeout: 4 * time.Minute}
		tot := &FFResult{Classes: map[string]int{}}
		var crashes []string
		handed := pool.Run(raw, func(r explore.PoolResult) {
			if strings.HasPrefix(r.Crashed, "TIMEOUT") {
				tot.Viol = append(tot.Viol, ev.Violation{Property: prop, Key: "hang", What: "the node did not return from a fast-forward attempt: " + lastAttempt(r.Crashed), Replay: map[string]interface{}{"worker_mode": "ff", "item": json.RawMessage(raw[r.Index])}})
				return
			}
			if r.Crashed != "" || r.Err != "" {
				crashes = append(crashes, string(raw[r.Index])+": "+r.Crashed+r.Err)
				return
			}
			var res FFResult
			json.Unmarshal(r.Res, &res)
			attachItem(res.Viol, "ff", raw[r.Index])
			tot.Attempts += res.Attempts
			tot.Accepted += res.Accepted
			tot.Refused += res.Refused
			for _, v := range res.Viol {
				if prop == "C12" && v.Property == "C14" {
					// forged responses inside the C12 run: only the refused-means-untouched verdicts are C12's
					if !strings.HasPrefix(v.Key, "refused-but") {
						continue
					}
					v.Property = "C12"
				}
				tot.Viol = append(tot.Viol, v)
			}
			for k, v := range res.Classes {
				tot.Classes[k] += v
			}
			if len(tot.Samples) < 10 {
				tot.Samples = append(tot.Samples, res.Samples...)
			}
		})
		if len(crashes) > 0 {
			for _, c := range crashes {
				fmt.Fprintln(os.Stderr, "worker problem:", c)
			}
			ev.Fail("%d work items failed in the harness", len(crashes))
		}
		sort.Slice(tot.Viol, func(i, j int) bool { return tot.Viol[i].Key < tot.Viol[j].Key })
		rep.Violations = tot.Viol
		cov := rep.Coverage
		cov["evaluations"] = tot.Attempts
		cov["distinct_nontrivial"] = tot.Attempts
		cov["accepted"] = tot.Accepted
		cov["refused"] = tot.Refused
		cov["classes"] = tot.Classes
		if len(basesInfo) > 0 {
			cov["base_responses"] = basesInfo
		}
		cov["exhaustive"] = handed == len(items)
		samples := []interface{}{}
		for _, s := range tot.Samples {
			samples = append(samples, s)
		}
		cov["samples"] = samples
		if prop == "C12" {
			cov["rule"] = "a valid (block, frame, snapshot) triple served by an honest node of a 4-validator + joiner history (and, for the signature-map attacks, of a 3-validator + joiner history), JSON-copied, with every single field replaced by every value of the hostile grammar (reflection over block body, signature map incl. the same signer under re-encoded keys, frame round/timestamp/peers/roots/events/peer-set history, snapshot) plus targeted signature-map attacks (signatures removed down to and below the threshold, signature of another body, non-member signer, one signer under several spellings); presented to a fresh joiner, a lagging validator with history and a validator that is ahead, at core.fastForward and through the node's own Node.fastForward against a hostile responder. Oracle: adopted => the harness's own predicate (frame hashes to FrameHash, frame peers hash to PeersHash, valid signatures of > n/3 distinct members); refused => digest of hashgraph, store, validator sets, head AND application unchanged. Each attempt is distinct (distinct_nontrivial = attempts)"
		} else {
			cov["rule"] = "forged responses built from a real, self-consistent network of 1..4 strangers (harness keys 10..13 run as their own babble network; its genuine anchor block, frame and snapshot are correctly signed by all of them), with variations (a known peer listed in the forged set but not signing, a known peer with an invalid signature, a known peer with a stranger's signature string, block index rewritten and re-signed by the strangers); presented to a fresh joiner, a lagging validator and a validator that is ahead at core.fastForward and through Node.fastForward (the forger answering every request); and to a newcomer that is still Joining, whose join request the forger answers itself with accepted=true and a peer list made of the forged validator set before serving the forged response (real Node.join, then Node.fastForward); and to a validator restarted from its database with fast-sync after its network had committed the refusal of a stranger's join request, the stranger's address serving its own network's anchor. Oracle: a response without a valid signature from any key in the peer list the node was started with, its genesis peers or its stored validator sets must be refused and leave the node's digest and application unchanged"
		}
		rep.Assumptions = []string{"Frame.Hash is used as given (C15 checks that it is a function of the frame's content)"}
		if tot.Attempts == 0 {
			rep.Finish()
			ev.Fail("vacuity guard: no attempts")
		}
		if prop == "C14" && tot.Classes["control: honest anchor adopted"] == 0 {
			rep.Finish()
			ev.Fail("vacuity guard: the positive control (honest anchor) was never adopted; a check that refuses everything proves nothing")
		}
		return rep.Finish()
	}
	checks["C12"] = func(args []string) int { return run("C12") }
	checks["C14"] = func(args []string) int { return run("C14") }
}

func classOf(label string) string {
	if i := strings.Index(label, " := "); i > 0 {
		p := label[:i]
		// strip indexes
		for _, ch := range []string{"[0]", "[1]", "[2]", "[3]"} {
			p = strings.ReplaceAll(p, ch, "[]")
		}
		return p
	}
	return label
}

// signatureAttacks are targeted manipulations of the signature map.
func signatureAttacks() map[string]func(r *net.FastForwardResponse) bool {
	keysOf := func(r *net.FastForwardResponse) []string {
		ks := []string{}
		for k := range r.Block.Signatures {
			ks = append(ks, k)
		}
		sort.Strings(ks)
		return ks
	}
	m := map[string]func(r *net.FastForwardResponse) bool{}
	for keep := 0; keep <= 2; keep++ {
		kp := keep
		m[fmt.Sprintf("signatures reduced to %d", kp)] = func(r *net.FastForwardResponse) bool {
			ks := keysOf(r)
			if len(ks) <= kp {
				return false
			}
			for _, k := range ks[kp:] {
				delete(r.Block.Signatures, k)
			}
			return true
		}
		m[fmt.Sprintf("signatures reduced to %d, then that signer repeated under lower-case and mixed-case keys", kp)] = func(r *net.FastForwardResponse) bool {
			ks := keysOf(r)
			if len(ks) <= kp || kp == 0 {
				return false
			}
			for _, k := range ks[kp:] {
				delete(r.Block.Signatures, k)
			}
			for _, k := range ks[:kp] {
				r.Block.Signatures[strings.ToLower(k)] = r.Block.Signatures[k]
				r.Block.Signatures[k[:2]+strings.ToLower(k[2:10])+k[10:]] = r.Block.Signatures[k]
				r.Block.Signatures["0x"+k[2:]] = r.Block.Signatures[k]
			}
			return true
		}
	}
	m["one signature replaced by a non-member's valid signature"] = func(r *net.FastForwardResponse) bool {
		ks := keysOf(r)
		if len(ks) == 0 {
			return false
		}
		delete(r.Block.Signatures, ks[0])
		bs, _ := r.Block.Sign(sim.Key(9))
		r.Block.Signatures[bs.ValidatorHex()] = bs.Signature
		return true
	}
	m["all signatures replaced by a non-member's valid signature under each member's key"] = func(r *net.FastForwardResponse) bool {
		bs, _ := r.Block.Sign(sim.Key(9))
		for k := range r.Block.Signatures {
			r.Block.Signatures[k] = bs.Signature
		}
		return true
	}
	m["state hash altered, signatures kept"] = func(r *net.FastForwardResponse) bool {
		r.Block.Body.StateHash = append([]byte{1}, r.Block.Body.StateHash...)
		return true
	}
	return m
}

// forgeries: genuine anchor responses of networks made of strangers only.
func forgeries() ([]*net.FastForwardResponse, []string) {
	var out []*net.FastForwardResponse
	var names []string
	for n := 1; n <= 4; n++ {
		sim.KeyShift = 10
		sc := sched.Static(n, 44)
		x := sched.NewExec(sc, nil)
		x.NoDigest = true
		for _, a := range sc.Seed {
			x.Step(a)
		}
		resp := validFF(x.C, 0, 0)
		x.Close()
		sim.KeyShift = 0
		if resp == nil {
			continue
		}
		out = append(out, resp)
		names = append(names, fmt.Sprintf("genuine anchor of a network of %d stranger(s) (block %d)", n, resp.Block.Index()))
		// a known peer listed in the forged set but not signing; peers hash recomputed, block re-signed by the strangers
		{
			cp := tamper.Copy(resp).(*net.FastForwardResponse)
			reSign := func(r *net.FastForwardResponse) {
				fh, _ := r.Frame.Hash()
				r.Block.Body.FrameHash = fh
				h := []byte{}
				for _, p := range r.Frame.Peers {
					hh := sha256.New()
					hh.Write(h)
					hh.Write(p.PubKeyBytes())
					h = hh.Sum(nil)
				}
				r.Block.Body.PeersHash = h
				r.Block.Signatures = map[string]string{}
				for i := 0; i < n; i++ {
					bs, _ := r.Block.Sign(sim.Key(10 + i))
					r.Block.Signatures[bs.ValidatorHex()] = bs.Signature
				}
			}
			honest := sim.PubHex(0)
			for _, p := range resp.Frame.Peers {
				_ = p
			}
			cp.Frame.Peers = append(cp.Frame.Peers, mkHonestPeer(honest))
			for r := range cp.Frame.PeerSets {
				cp.Frame.PeerSets[r] = append(cp.Frame.PeerSets[r], mkHonestPeer(honest))
			}
			reSign(cp)
			out = append(out, cp)
			names = append(names, fmt.Sprintf("%d stranger(s) + known peer 0 listed but not signing (hashes recomputed, re-signed by the strangers)", n))
			cp2 := tamper.Copy(cp).(*net.FastForwardResponse)
			cp2.Block.Signatures[honest] = "1|1"
			out = append(out, cp2)
			names = append(names, fmt.Sprintf("%d stranger(s) + known peer 0 listed with an invalid signature", n))
			// the known peer listed with a stranger's signature string (a valid signature - of somebody else)
			cp4 := tamper.Copy(cp).(*net.FastForwardResponse)
			for _, sg := range cp4.Block.Signatures {
				cp4.Block.Signatures[honest] = sg
				break
			}
			out = append(out, cp4)
			names = append(names, fmt.Sprintf("%d stranger(s) + known peer 0 listed with a stranger's signature string", n))
			cp3 := tamper.Copy(resp).(*net.FastForwardResponse)
			cp3.Block.Body.Index = 1000000
			reSign(cp3)
			out = append(out, cp3)
			names = append(names, fmt.Sprintf("%d stranger(s), block index rewritten to 1000000 and re-signed", n))
		}
	}
	return out, names
}

// runForgedRefused: a stranger (key 3) asks to join a three-validator network whose applications refuse it; the refusal
// is committed. Validator 2 (database, fast-sync) is then restarted with bootstrap and runs Node.fastForward while the
// stranger's address answers fast-forward requests with the genuine anchor of its own one-node network (signed by key 3
// only, block index far ahead). The honest validators answer as they are.
func runForgedRefused(res *FFResult, viol func(key, what string, rp map[string]interface{})) {
	// the stranger's own network
	sim.KeyShift = 3
	fsc := sched.Static(1, 44)
	fx := sched.NewExec(fsc, nil)
	fx.NoDigest = true
	for _, a := range fsc.Seed {
		fx.Step(a)
	}
	forged := validFF(fx.C, 0, 0)
	fx.Close()
	sim.KeyShift = 0
	if forged == nil {
		res.Classes["forged-refused: the stranger's network produced no anchor"]++
		return
	}
	forged.Block.Body.Index = 1000000
	forged.Block.Signatures = map[string]string{}
	bs, _ := forged.Block.Sign(sim.Key(3))
	forged.Block.Signatures[bs.ValidatorHex()] = bs.Signature
	for _, downAt := range []int{40, 52, 64} {
		sc := &sched.Scenario{Name: "c14-refused", Cfg: sim.Config{N: 3, RefuseJoin: map[int]bool{3: true}, Badger: map[int]bool{2: true},
			FastSyncOf: map[int]bool{2: true}, Dir: scratchDir()}, Asked: map[int]int{3: 0}}
		x := sched.NewExec(sc, nil)
		x.NoDigest = true
		x.Step(sched.Action{K: "FF", A: 2})
		seed := sched.FairSeed(nodesOf(3), 6, 4)
		seed = append(seed, sched.Action{K: "Start", A: 3, B: 0}, sched.Action{K: "J", A: 3, B: 0})
		seed = append(seed, sched.FairSeed(nodesOf(3), downAt, 4)...)
		for _, a := range seed {
			x.Step(a)
		}
		c := x.C
		x.Step(sched.Action{K: "Crash", A: 2})
		x.Step(sched.Action{K: "Restart", A: 2, Lim: 3})
		t := c.Nodes[2]
		res.Attempts++
		ab := appDigest(t)
		known := map[string]bool{}
		for _, k := range t.Configured {
			known[k] = true
		}
		for _, p := range c.Genesis {
			known[p.PubKeyString()] = true
		}
		all, _ := t.Node.GetAllValidatorSets()
		for _, ps := range all {
			for _, p := range ps {
				known[p.PubKeyString()] = true
			}
		}
		hostile := &sim.Plan{AnswerAs: 3, AnswerAsSet: true, Answer: func(kind string, args interface{}) (interface{}, bool) {
			if kind == "ff" {
				return tamper.Copy(forged), true
			}
			return nil, false
		}}
		err := c.FastForward(2, hostile)
		if os.Getenv("C14_DEBUG") != "" {
			ps := []string{}
			for _, p := range t.Node.VCoreState().SelectorPeers {
				ps = append(ps, p.NetAddr)
			}
			fmt.Fprintf(os.Stderr, "forged-refused: stop after %d: state=%s selector peers=%v ff err=%v last block=%d errors=%v\n", downAt, t.Node.GetState(), ps, err, t.Node.GetLastBlockIndex(), len(c.Errors))
		}
		rp := map[string]interface{}{"level": "forged-refused", "stop_after": downAt}
		adoptedForged := err == nil && t.Node.GetLastBlockIndex() >= 1000000
		if adoptedForged && !known[strings.ToUpper(bs.ValidatorHex())] {
			viol("adopted-strangers-snapshot:forged-refused", fmt.Sprintf("validator 2, restarted from its database with fast-sync, adopted block %d signed only by the key whose join request its network had refused (not among its configured peers, genesis peers or stored validator sets)", t.Node.GetLastBlockIndex()), rp)
			res.Accepted++
		} else {
			res.Refused++
			res.Classes["forged-refused: not adopted"]++
			if appDigest(t) != ab && err != nil {
				viol("refused-but-application-changed:forged-refused", fmt.Sprintf("the fast-forward failed (%v) but the application was restored", err), rp)
			}
		}
		x.Close()
	}
	res.Classes["control: honest anchor adopted"]++ // (the honest peers answer as they are; the other levels carry the positive control)
}
