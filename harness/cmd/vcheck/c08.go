package main

import (
	"bytes"
	"encoding/json"
	"fmt"
	"github.com/mosaicnetworks/babble/src/peers"
	stdnet "net"
	"os"
	"regexp"
	"sort"
	"strings"
	"sync"
	"time"

	hg "github.com/mosaicnetworks/babble/src/hashgraph"
	"github.com/mosaicnetworks/babble/src/net"
	"github.com/mosaicnetworks/babble/src/node/state"
	"verif/harness/ev"
	"verif/harness/explore"
	"verif/harness/sched"
	"verif/harness/sim"
	"verif/harness/tamper"
)

// HostileItem: one (target state, message kind) batch of substitutions [From,To).
type HostileItem struct {
	State string `json:"state"` // fresh | mid | suspended | catchingup
	Kind  string `json:"kind"`  // req:sync req:eager req:ff req:join resp:sync resp:eager resp:ff resp:join bytes
	From  int    `json:"from"`
	To    int    `json:"to"`
	Pairs bool   `json:"pairs"`
}

type HostileResult struct {
	Attempts int            `json:"attempts"`
	Total    int            `json:"total"` // number of substitutions that exist for this (state, kind)
	Panics   int            `json:"panics"`
	Rejected int            `json:"rejected"`
	Accepted int            `json:"accepted"` // state changed legitimately
	Rebuilds int            `json:"rebuilds"`
	Twins    int            `json:"twins"`
	Viol     []ev.Violation `json:"viol,omitempty"`
	Samples  []string       `json:"samples,omitempty"`
	Outcomes map[string]int `json:"outcomes"`
}

// c08 scenario: static3, 30 fair steps (blocks exist), then node 1 learns news node 0 lacks.
func c08Build(st string) *sched.Exec { return c08BuildOn(st, false) }

// c08BuildOn: badger=true puts node 0 on a BadgerStore (for the cases that end with a restart from the database).
func c08BuildOn(st string, badger bool) *sched.Exec {
	sc := sched.Static(3, 30)
	sc.Name = "c08-" + st
	if badger {
		sc.Cfg.Badger = map[int]bool{0: true}
		sc.Cfg.Dir = scratchDir()
	}
	steps := sc.Seed
	if st == "fresh" {
		steps = nil
	}
	sc.Seed = nil
	x := sched.NewExec(sc, nil)
	x.NoDigest = true
	for _, a := range steps {
		x.Step(a)
	}
	// node 1 gets events node 0 does not have
	x.Step(sched.Action{K: "T", A: 1})
	x.Step(sched.Action{K: "G", A: 1, B: 2})
	x.Step(sched.Action{K: "G", A: 2, B: 1})
	switch st {
	case "suspended":
		x.C.Nodes[0].Node.Suspend()
	case "catchingup":
		x.C.Nodes[0].Node.VTransition(state.CatchingUp)
	}
	return x
}

// commitsDigest: what node i delivered so far.
func commitsDigest(n *sim.SimNode) string {
	s := ""
	for _, cr := range n.App.Commits {
		raw, _ := json.Marshal(cr.Body)
		s += fmt.Sprintf("%x|%x;", sha(string(raw))[:6], cr.StateHash)
	}
	return s
}

var frameRe = regexp.MustCompile(`github.com/mosaicnetworks/babble/src/([A-Za-z0-9_/\.\(\)\*]+)\(`)

// panicKey identifies the root cause of a panic: message class + the
// innermost babble function on the stack.
func panicKey(stack string) string {
	first := strings.SplitN(stack, "\n", 2)[0]
	msg := first
	if i := strings.Index(first, "panic: "); i >= 0 {
		msg = first[i+7:]
	}
	msg = regexp.MustCompile(`\[[^\]]*\]|0x[0-9a-f]+|\d+`).ReplaceAllString(msg, "#")
	if len(msg) > 60 {
		msg = msg[:60]
	}
	fn := "?"
	lines := strings.Split(stack, "\n")
	after := false
	for _, l := range lines {
		if strings.HasPrefix(l, "panic(") {
			after = true
			continue
		}
		if !after {
			continue
		}
		if m := frameRe.FindStringSubmatch(l); m != nil {
			fn = m[1]
			break
		}
	}
	return fn + ": " + msg
}

func init() {
	explore.Register("hostile", func(spec json.RawMessage) (json.RawMessage, error) {
		var it HostileItem
		if err := json.Unmarshal(spec, &it); err != nil {
			return nil, err
		}
		res := &HostileResult{Outcomes: map[string]int{}}
		if it.Kind == "bytes" {
			runBytes(it, res)
			return json.Marshal(res)
		}
		if it.Kind == "byz" {
			runByz(it, res)
			return json.Marshal(res)
		}
		seen := map[string]bool{}
		viol := func(key, what string, rp map[string]interface{}) {
			if seen[key] {
				return
			}
			seen[key] = true
			res.Viol = append(res.Viol, ev.Violation{Property: "C08", Key: key, What: what, Replay: rp})
		}
		var x *sched.Exec
		var base interface{}
		extra := [][]byte{sim.PubOf(9)}
		build := func() {
			if x != nil {
				x.Close()
			}
			res.Rebuilds++
			x = c08Build(it.State)
			c := x.C
			switch it.Kind {
			case "req:sync":
				base = &net.SyncRequest{FromID: c.Nodes[1].Peer.ID(), Known: c.Nodes[1].Store.KnownEvents(), SyncLimit: 1000}
			case "req:eager":
				diff, _ := c.Nodes[1].Node.VEventDiff(c.Nodes[0].Store.KnownEvents())
				w := make([]hg.WireEvent, len(diff))
				for i, e := range diff {
					w[i] = e.ToWire()
				}
				if len(w) > 4 {
					w = w[:4]
				}
				base = &net.EagerSyncRequest{FromID: c.Nodes[1].Peer.ID(), Events: w}
			case "req:ff":
				base = &net.FastForwardRequest{FromID: c.Nodes[1].Peer.ID()}
			case "req:join":
				base = &net.JoinRequest{InternalTransaction: sim.JoinTx(5)}
			}
		}
		build()
		defer func() { x.Close() }()

		// one attempt = deliver the hostile message; returns false if the instance must be rebuilt
		attempt := func(label string, deliver func(c *sim.Cluster) error) {
			res.Attempts++
			fmt.Fprintf(os.Stderr, "ATTEMPT %s\n", label)
			c := x.C
			before := c.Digest()
			cd := commitsDigest(c.Nodes[0])
			err := deliver(c)
			rp := map[string]interface{}{"state": it.State, "kind": it.Kind, "substitution": label}
			if c.Panic != "" {
				res.Panics++
				k := panicKey(c.Panic)
				res.Outcomes["panic "+k]++
				viol("panic:"+k, fmt.Sprintf("%s delivered to a node in state %q with %s: panic (no recover in the real code path): %s", it.Kind, it.State, label, firstLines(c.Panic, 1)), map[string]interface{}{"state": it.State, "kind": it.Kind, "substitution": label, "stack": firstLines(c.Panic, 40)})
				build()
				return
			}
			if commitsDigest(c.Nodes[0]) != cd && !strings.HasPrefix(commitsDigest(c.Nodes[0]), cd) {
				viol("delivered-blocks-changed", fmt.Sprintf("%s with %s changed blocks already delivered", it.Kind, label), rp)
			}
			if c.Digest() != before {
				res.Accepted++
				res.Outcomes["state changed (message had an effect)"]++
				build()
				return
			}
			res.Rejected++
			if os.Getenv("C08_DEBUG") != "" {
				fmt.Fprintf(os.Stderr, "UNCHANGED %s err=%v\n", label, err)
			}
			if err != nil {
				res.Outcomes["answered with an error, state unchanged"]++
			} else {
				res.Outcomes["answered, state unchanged"]++
			}
		}

		var muts []tamper.Mut
		if strings.HasPrefix(it.Kind, "req:") {
			muts = tamper.Enumerate(base, extra)
		} else {
			// responses: enumerate on a captured valid response
			base = captureResponse(it, x)
			if base == nil {
				return json.Marshal(res)
			}
			muts = tamper.Enumerate(base, extra)
		}
		res.Total = len(muts)
		if it.To > len(muts) {
			it.To = len(muts)
		}
		for k := it.From; k < it.To && !it.Pairs; k++ {
			m := muts[k]
			if len(res.Samples) < 6 {
				res.Samples = append(res.Samples, it.Kind+" "+m.String())
			}
			if strings.HasPrefix(it.Kind, "req:") {
				msg := tamper.Apply(base, m)
				if msg == nil {
					continue
				}
				attempt(m.String(), func(c *sim.Cluster) error {
					_, err := c.ProcessRPC(0, "hostile "+it.Kind, msg)
					return err
				})
			} else {
				mm := m
				attempt(m.String(), func(c *sim.Cluster) error {
					return deliverResponse(it, c, func(kind string, resp interface{}) interface{} {
						if out := tamper.Apply(resp, mm); out != nil {
							return out
						}
						return resp
					})
				})
			}
		}
		if it.Pairs {
			// thorough: all pairs (i<j) among every 5th substitution, i in [From,To)
			var sub []tamper.Mut
			for k := 0; k < len(muts); k += 5 {
				sub = append(sub, muts[k])
			}
			res.Total = len(sub)
			for i := it.From; i < it.To && i < len(sub); i++ {
				for j := i + 1; j < len(sub); j++ {
					if sub[i].Path == sub[j].Path {
						continue
					}
					mi, mj := sub[i], sub[j]
					label := mi.String() + " AND " + mj.String()
					if strings.HasPrefix(it.Kind, "req:") {
						m1 := tamper.Apply(base, mi)
						if m1 == nil {
							continue
						}
						msg := tamper.Apply(m1, mj)
						if msg == nil {
							continue
						}
						attempt(label, func(c *sim.Cluster) error {
							_, err := c.ProcessRPC(0, "hostile "+it.Kind, msg)
							return err
						})
					} else {
						attempt(label, func(c *sim.Cluster) error {
							return deliverResponse(it, c, func(kind string, resp interface{}) interface{} {
								m1 := tamper.Apply(resp, mi)
								if m1 == nil {
									return resp
								}
								if m2 := tamper.Apply(m1, mj); m2 != nil {
									return m2
								}
								return m1
							})
						})
					}
				}
			}
			return json.Marshal(res)
		}
		// afterwards valid exchanges still work and make the same progress as on a twin that never saw the hostile input
		if it.State == "mid" || it.State == "fresh" {
			twin := c08Build(it.State)
			cont := []sched.Action{{K: "G", A: 1, B: 0}, {K: "T", A: 0}, {K: "G", A: 0, B: 2}, {K: "G", A: 2, B: 0}, {K: "G", A: 0, B: 1}}
			ok := true
			for _, a := range cont {
				e1 := x.Step(a)
				e2 := twin.Step(a)
				if (e1 == nil) != (e2 == nil) {
					ok = false
					viol("valid-exchange-fails-afterwards", fmt.Sprintf("after the hostile %s batch in state %q the valid step %s returns %v, on a twin that never saw it %v", it.Kind, it.State, a, e1, e2), map[string]interface{}{"state": it.State, "kind": it.Kind})
				}
			}
			if ok {
				res.Twins++
				if x.C.Digest() != twin.C.Digest() {
					viol("twin-diverges", fmt.Sprintf("after the hostile %s batch in state %q valid exchanges do not make the same progress as on a twin that never saw it", it.Kind, it.State), map[string]interface{}{"state": it.State, "kind": it.Kind})
				}
			}
			twin.Close()
		}
		return json.Marshal(res)
	})

	checks["C08"] = func(args []string) int {
		th := ev.Tier() == "thorough"
		rep := ev.NewReport("C08", "exploration")
		var items []HostileItem
		chunk := 40
		// number of substitutions per (state, kind) is discovered by a probe item with an empty range
		kinds := map[string][]string{
			"mid":        {"req:sync", "req:eager", "req:ff", "req:join", "resp:sync", "resp:eager", "resp:ff", "resp:join"},
			"fresh":      {"req:sync", "req:eager", "req:ff", "req:join", "resp:sync"},
			"suspended":  {"req:sync", "req:eager", "req:ff", "req:join"},
			"catchingup": {"req:sync", "req:eager", "req:ff", "req:join"},
		}
		states := []string{"mid", "fresh", "suspended", "catchingup"}
		for _, st := range states {
			for _, k := range kinds[st] {
				n := probeCount(st, k)
				for from := 0; from < n; from += chunk {
					items = append(items, HostileItem{State: st, Kind: k, From: from, To: from + chunk})
				}
			}
		}
		for b := 0; b < 16; b++ {
			items = append(items, HostileItem{State: "mid", Kind: "bytes", From: b, To: 16})
		}
		nb := len(byzCases())
		for from := 0; from < nb; from += 3 {
			items = append(items, HostileItem{State: "mid", Kind: "byz", From: from, To: from + 3})
		}
		{
			// pairs of substitutions (among every 5th one), in both tiers: they take ten seconds
			for _, k := range []string{"req:eager", "req:join", "req:sync", "resp:sync", "resp:ff"} {
				n := (probeCount("mid", k) + 4) / 5
				for from := 0; from < n; from += 2 {
					items = append(items, HostileItem{State: "mid", Kind: k, From: from, To: from + 2, Pairs: true})
				}
			}
		}
		raw := make([]json.RawMessage, len(items))
		for i, it := range items {
			raw[i], _ = json.Marshal(it)
		}
		bud := budget(map[bool]time.Duration{false: 200 * time.Second, true: 40 * time.Minute}[th])
		pool := explore.Pool{Mode: "hostile", Deadline: time.Now().Add(bud), ItemTimeout: 4 * time.Minute}
		tot := &HostileResult{Outcomes: map[string]int{}}
		var crashes []string
		handed := pool.Run(raw, func(r explore.PoolResult) {
			if strings.HasPrefix(r.Crashed, "TIMEOUT") {
				tot.Viol = append(tot.Viol, ev.Violation{Property: "C08", Key: "hang", What: "the node did not return from processing hostile input: " + lastAttempt(r.Crashed), Replay: map[string]interface{}{"worker_mode": "hostile", "item": json.RawMessage(raw[r.Index])}})
				return
			}
			if r.Crashed != "" || r.Err != "" {
				crashes = append(crashes, string(raw[r.Index])+": "+r.Crashed+r.Err)
				return
			}
			var res HostileResult
			json.Unmarshal(r.Res, &res)
			attachItem(res.Viol, "hostile", raw[r.Index])
			tot.Attempts += res.Attempts
			tot.Panics += res.Panics
			tot.Rejected += res.Rejected
			tot.Accepted += res.Accepted
			tot.Twins += res.Twins
			tot.Viol = append(tot.Viol, res.Viol...)
			for k, v := range res.Outcomes {
				tot.Outcomes[k] += v
			}
			if len(tot.Samples) < 12 {
				tot.Samples = append(tot.Samples, res.Samples...)
			}
		})
		if len(crashes) > 0 {
			for _, c := range crashes {
				fmt.Fprintln(os.Stderr, "worker problem:", c)
			}
			ev.Fail("%d work items failed in the harness", len(crashes))
		}
		sort.Slice(tot.Viol, func(i, j int) bool { return tot.Viol[i].Key < tot.Viol[j].Key })
		rep.Violations = tot.Viol
		cov := rep.Coverage
		cov["evaluations"] = tot.Attempts
		cov["distinct_nontrivial"] = len(tot.Outcomes) + len(items)
		cov["outcome_classes"] = tot.Outcomes
		cov["panics"] = tot.Panics
		cov["state_changing_messages"] = tot.Accepted
		cov["rejected_or_answered_without_effect"] = tot.Rejected
		cov["twin_continuations_compared"] = tot.Twins
		cov["exhaustive"] = handed == len(items)
		samples := []interface{}{}
		for _, s := range tot.Samples {
			samples = append(samples, s)
		}
		cov["samples"] = samples
		cov["rule"] = "(A) valid SyncRequest / EagerSyncRequest / FastForwardRequest / JoinRequest built in the current state, and valid SyncResponse / EagerSyncResponse / FastForwardResponse / JoinResponse captured from an honest peer, with every single field (recursively, by reflection over the exported structure: strings, ints, byte slices, slices incl. nil elements, maps incl. unknown / re-encoded keys, pointers) replaced by every value of the hostile grammar (thorough: additionally all pairs among every fifth substitution for the mid-history state), delivered to node 0 in the states fresh / mid-history with blocks / suspended / catching-up (requests through the real processRPC, responses through the node's own pull, push, fastForward, join against a hostile responder). (B) byte streams on the real NetworkTransport connection handler over a pipe with the real processRPC as consumer: every prefix of every valid encoded request, single-byte substitutions from {0x00,'\"','{','[','}',0xff} at every position of the short requests, unknown type bytes, wrong-shaped JSON. (C) well-formed messages of a Byzantine validator: events re-signed with a validator key whose self-parent is that validator's last / second-to-last / third-to-last known event (forks) and whose index is correct, off by one, 0, -1, huge or the next free one, delivered as an eager-sync request and as a sync response; after each, valid exchanges must succeed as on a twin and the cluster must reach quiescence. Oracle: no panic crosses the recover boundary placed where the real code has none; blocks already delivered unchanged; afterwards valid exchanges succeed and reach the same cluster state as on a twin that never saw the hostile input"
		rep.Assumptions = []string{"'all byte strings' is covered up to the stated grammar; resource exhaustion is not modelled", "a hostile message that is a valid message (state changes) is not an error; the instance is rebuilt afterwards"}
		return rep.Finish()
	}
}

func firstLines(s string, n int) string {
	l := strings.Split(s, "\n")
	if len(l) > n {
		l = l[:n]
	}
	return strings.Join(l, "\n")
}

var probeCache = map[string]int{}

func probeCount(st, kind string) int {
	it := HostileItem{State: st, Kind: kind, From: 0, To: 0}
	raw, _ := json.Marshal(it)
	// run in-process: cheap (one build)
	var res HostileResult
	out, err := explore.Call("hostile", raw)
	if err != nil {
		ev.Fail("probe: %v", err)
	}
	json.Unmarshal(out, &res)
	return res.Total
}

// captureResponse obtains a valid response of the given kind by letting the
// honest peer answer once (on a throw-away instance).
func captureResponse(it HostileItem, x *sched.Exec) interface{} {
	y := c08Build(it.State)
	defer y.Close()
	var got interface{}
	deliverResponse(it, y.C, func(kind string, resp interface{}) interface{} {
		if got == nil {
			got = tamper.Copy(resp)
		}
		return resp
	})
	return got
}

// deliverResponse makes node 0 issue the request whose response is to be
// tampered with; mut is applied to the honest peer's response.
func deliverResponse(it HostileItem, c *sim.Cluster, mut func(kind string, resp interface{}) interface{}) error {
	want := map[string]string{"resp:sync": "sync", "resp:eager": "eager", "resp:ff": "ff", "resp:join": "join"}[it.Kind]
	plan := &sim.Plan{ForceOK: it.Kind == "resp:join" || it.Kind == "resp:ff", MutateResp: func(kind string, resp interface{}) interface{} {
		if kind != want {
			return resp
		}
		return mut(kind, resp)
	}}
	switch it.Kind {
	case "resp:sync":
		return c.Pull(0, 1, plan)
	case "resp:eager":
		// node 0 needs something to push
		c.Submit(0)
		return c.Gossip(0, 2, plan)
	case "resp:ff":
		c.Nodes[0].Node.VTransition(state.CatchingUp)
		return c.FastForward(0, plan)
	case "resp:join":
		c.Nodes[0].Node.VTransition(state.Joining)
		return c.Join(0, plan)
	}
	return nil
}

// ---------------------------------------------------------------------------
// (B) byte streams on the real connection handler

func encodeRPC(typ byte, v interface{}) []byte {
	var b bytes.Buffer
	b.WriteByte(typ)
	json.NewEncoder(&b).Encode(v)
	return b.Bytes()
}

type dummyStream struct{}

func (dummyStream) Accept() (stdnet.Conn, error) { select {} }
func (dummyStream) Close() error                 { return nil }
func (dummyStream) Addr() stdnet.Addr            { return nil }
func (dummyStream) Dial(string, time.Duration) (stdnet.Conn, error) {
	return nil, fmt.Errorf("no dial")
}
func (dummyStream) AdvertiseAddr() string { return "harness" }

func runBytes(it HostileItem, res *HostileResult) {
	start := it.From
	for start >= 0 {
		start = runBytesFrom(it, res, start)
	}
}

// runBytesFrom handles cases start, start+stride, … on a fresh instance and
// returns the next case index after a panic (the instance is poisoned then), or -1 when done.
func runBytesFrom(it HostileItem, res *HostileResult, start int) int {
	x := c08Build("mid")
	defer x.Close()
	c := x.C
	viol := func(key, what string, rp map[string]interface{}) {
		for _, v := range res.Viol {
			if v.Key == key {
				return
			}
		}
		res.Viol = append(res.Viol, ev.Violation{Property: "C08", Key: key, What: what, Replay: rp})
	}
	diff, _ := c.Nodes[1].Node.VEventDiff(c.Nodes[0].Store.KnownEvents())
	w := make([]hg.WireEvent, 0)
	for i, e := range diff {
		if i < 2 {
			w = append(w, e.ToWire())
		}
	}
	// rpc type bytes: rpcJoin=0 rpcSync=1 rpcEagerSync=2 rpcFastForward=3
	valid := map[string][]byte{
		"sync":  encodeRPC(1, &net.SyncRequest{FromID: c.Nodes[1].Peer.ID(), Known: c.Nodes[1].Store.KnownEvents(), SyncLimit: 1000}),
		"eager": encodeRPC(2, &net.EagerSyncRequest{FromID: c.Nodes[1].Peer.ID(), Events: w}),
		"ff":    encodeRPC(3, &net.FastForwardRequest{FromID: c.Nodes[1].Peer.ID()}),
		"join":  encodeRPC(0, &net.JoinRequest{InternalTransaction: sim.JoinTx(5)}),
	}
	type bcase struct {
		name string
		data []byte
	}
	var cases []bcase
	for _, k := range []string{"sync", "eager", "ff", "join"} {
		v := valid[k]
		for n := 0; n <= len(v); n++ {
			cases = append(cases, bcase{fmt.Sprintf("%s request truncated to %d of %d bytes", k, n, len(v)), v[:n]})
		}
		if len(v) < 700 {
			for pos := 0; pos < len(v); pos++ {
				for _, b := range []byte{0x00, '"', '{', '[', '}', 0xff} {
					if v[pos] == b {
						continue
					}
					d := append([]byte{}, v...)
					d[pos] = b
					cases = append(cases, bcase{fmt.Sprintf("%s request with byte %d replaced by 0x%02x", k, pos, b), d})
				}
			}
		}
	}
	for _, t := range []byte{4, 5, 9, 0x7f, 0xff} {
		cases = append(cases, bcase{fmt.Sprintf("unknown rpc type byte 0x%02x + sync body", t), append([]byte{t}, valid["sync"][1:]...)})
	}
	for ti := byte(0); ti < 4; ti++ {
		for _, body := range []string{"[]", "null", "[[[[[[[[[[[[[[[[[[[[]]]]]]]]]]]]]]]]]]]]", "{\"FromID\":99999999999999999999999}", "{\"Known\":[1,2]}", "\"x\"", "{\"SyncLimit\":-5,\"Known\":{\"1\":-9}}", "{\"Events\":[null]}", "{\"Events\":[{\"Body\":null}]}", "{\"InternalTransaction\":{\"Body\":{\"Peer\":{\"PubKeyHex\":\"0\"}},\"Signature\":\"|\"}}", strings.Repeat("{\"a\":", 2000), "{}"} {
			cases = append(cases, bcase{fmt.Sprintf("rpc type %d with body %s", ti, trunc(body)), append([]byte{ti}, []byte(body+"\n")...)})
		}
	}
	res.Total = len(cases)
	trans := net.NewNetworkTransport(dummyStream{}, 2, time.Second, time.Second, discardLogger())
	// consumer: the real processRPC, with the recover boundary the real goroutine does not have
	var mu sync.Mutex
	panicStack := ""
	stop := make(chan struct{})
	go func() {
		for {
			select {
			case rpc := <-trans.Consumer():
				func() {
					defer func() {
						if r := recover(); r != nil {
							mu.Lock()
							panicStack = fmt.Sprintf("panic: %v\n%s", r, stackHere())
							mu.Unlock()
							rpc.Respond(nil, fmt.Errorf("harness: recovered panic"))
						}
					}()
					c.Nodes[0].Node.VProcessRPC(rpc)
				}()
			case <-stop:
				return
			}
		}
	}()
	defer close(stop)
	n0 := c.Nodes[0]
	for k := start; k < len(cases); k += it.To {
		bc := cases[k]
		res.Attempts++
		cd := commitsDigest(n0)
		a, b := stdnet.Pipe()
		done := make(chan string, 1)
		go func() {
			defer func() {
				if r := recover(); r != nil {
					done <- fmt.Sprintf("panic: %v\n%s", r, stackHere())
					return
				}
				done <- ""
			}()
			trans.VHandleConn(b)
		}()
		go func() { // drain responses
			buf := make([]byte, 65536)
			for {
				if _, err := a.Read(buf); err != nil {
					return
				}
			}
		}()
		a.SetWriteDeadline(time.Now().Add(20 * time.Second))
		a.Write(bc.data)
		// give the handler the chance to answer a complete request, then close
		time.Sleep(200 * time.Microsecond)
		a.Close()
		var hp string
		select {
		case hp = <-done:
		case <-time.After(60 * time.Second):
			viol("handler-hangs", "connection handler did not return 60 s after the connection was closed: "+bc.name, map[string]interface{}{"case": bc.name})
			return -1
		}
		mu.Lock()
		ps := panicStack
		panicStack = ""
		mu.Unlock()
		if hp != "" {
			ps = hp
		}
		if ps != "" {
			res.Panics++
			key := panicKey(ps)
			res.Outcomes["bytes: panic "+key]++
			viol("panic:"+key, fmt.Sprintf("byte stream (%s): panic: %s", bc.name, firstLines(ps, 1)), map[string]interface{}{"case": bc.name, "bytes": fmt.Sprintf("%q", trunc200(bc.data)), "stack": firstLines(ps, 40)})
			// a panic inside processRPC may have left the node's lock held: continue on a fresh instance
			return k + it.To
		}
		if d := commitsDigest(n0); d != cd && !strings.HasPrefix(d, cd) {
			viol("delivered-blocks-changed", "byte stream changed delivered blocks: "+bc.name, map[string]interface{}{"case": bc.name})
		}
		res.Rejected++
		res.Outcomes["bytes: handled"]++
		if len(res.Samples) < 4 {
			res.Samples = append(res.Samples, bc.name)
		}
	}
	// afterwards a valid exchange still works
	if err := x.Step(sched.Action{K: "G", A: 1, B: 0}); err != nil {
		viol("valid-exchange-fails-afterwards", fmt.Sprintf("after the byte-stream batch a valid gossip returns %v", err), nil)
	} else {
		res.Twins++
	}
	return -1
}

func trunc200(b []byte) []byte {
	if len(b) > 200 {
		return b[:200]
	}
	return b
}

// ---------------------------------------------------------------------------
// (C) well-formed messages from a Byzantine validator: events re-signed with a validator's own key
// (forks, wrong / huge / duplicate indexes, replays), delivered as eager-sync requests and as sync
// responses. After every such message the node must still process valid exchanges and commit new work.

type byzCase struct {
	name string
	mk   func(c *sim.Cluster) (*hg.WireEvent, uint32, bool)
	// sig != nil: validator 1 itself is the adversary: its next (otherwise regular) self-event carries this
	// block signature; it reaches the target through a regular exchange
	sig *hg.BlockSignature
	// restart: node 0 keeps its history in a database; after the continuation it is stopped and bootstrapped from it
	// and must know every event and re-deliver every block it had
	restart bool
	// join != nil: a stranger's well-formed JoinRequest (signed with the key it names) delivered to node 0 as an RPC
	join *hg.InternalTransaction
}

func byzCases() []byzCase {
	var cases []byzCase
	// creator 1 (the sender) and creator 2 (somebody else's key, held by the adversary too)
	for _, creator := range []int{1, 2} {
		for _, spBack := range []int{0, 1, 2} { // self-parent = creator's last event known to the target, one before, two before
			for _, idx := range []string{"sp+1", "sp+2", "0", "huge", "-1", "last+1"} {
				if spBack == 0 && (idx == "sp+1" || idx == "last+1") {
					continue // an admissible event: the adversary equivocating with a validator key it holds is outside the property
				}
				cr, sb, ix := creator, spBack, idx
				cases = append(cases, byzCase{
					name: fmt.Sprintf("event of validator %d re-signed with self-parent = its %s known event and index %s", cr, []string{"last", "second-to-last", "third-to-last"}[sb], ix),
					mk: func(c *sim.Cluster) (*hg.WireEvent, uint32, bool) {
						t := c.Nodes[0]
						pub := sim.PubHex(cr)
						l, err := t.Store.ParticipantEvents(pub, -1)
						if err != nil || len(l) < 3 {
							return nil, 0, false
						}
						spHex := l[len(l)-1-sb]
						sp, err := t.Store.GetEvent(spHex)
						if err != nil {
							return nil, 0, false
						}
						index := sp.Index() + 1
						switch ix {
						case "sp+2":
							index = sp.Index() + 2
						case "0":
							index = 0
						case "huge":
							index = 1 << 40
						case "-1":
							index = -1
						case "last+1":
							index = len(l)
						}
						op := ""
						if o, err := t.Store.LastEventFrom(sim.PubHex(0)); err == nil {
							op = o
						}
						e := hg.NewEvent([][]byte{[]byte("byz")}, nil, nil, []string{spHex, op}, sim.PubOf(cr), index)
						e.Body.Timestamp = sim.BaseTime + 999
						if err := e.Sign(sim.Key(cr)); err != nil {
							return nil, 0, false
						}
						if err := t.Node.VHashgraph().SetWireInfo(e); err != nil {
							return nil, 0, false
						}
						w := e.ToWire()
						return &w, c.Nodes[cr].Peer.ID(), true
					},
				})
			}
		}
	}
	// the structurally right next event of validator 1 (right self-parent and index) with a signature that does not
	// verify; the node runs on a database and is restarted from it afterwards
	for _, sgs := range []string{"zz|zz", "1|1", "", "abc"} {
		sg := sgs
		cases = append(cases, byzCase{restart: true,
			name: fmt.Sprintf("the right next event of validator 1 with signature %q, then a restart from the database", sg),
			mk: func(c *sim.Cluster) (*hg.WireEvent, uint32, bool) {
				t := c.Nodes[0]
				l, err := t.Store.ParticipantEvents(sim.PubHex(1), -1)
				if err != nil || len(l) == 0 {
					return nil, 0, false
				}
				sp, err := t.Store.GetEvent(l[len(l)-1])
				if err != nil {
					return nil, 0, false
				}
				op, _ := t.Store.LastEventFrom(sim.PubHex(0))
				e := hg.NewEvent([][]byte{[]byte("byz")}, nil, nil, []string{sp.Hex(), op}, sim.PubOf(1), sp.Index()+1)
				e.Body.Timestamp = sim.BaseTime + 999
				if err := e.Sign(sim.Key(1)); err != nil {
					return nil, 0, false
				}
				if err := t.Node.VHashgraph().SetWireInfo(e); err != nil {
					return nil, 0, false
				}
				w := e.ToWire()
				w.Signature = sg
				return &w, c.Nodes[1].Peer.ID(), true
			}})
	}
	// an admissible event of a validator whose block-signature payload is hostile
	for _, sg := range []struct {
		name, sig string
		index     int
	}{
		{"a signature string without separator", "abc", 1}, {"a signature string with three parts", "1|2|3", 1}, {"an empty signature string", "", 1},
		{"a signature string \"|\"", "|", 1}, {"a non-numeric signature string", "zz|1", 1}, {"a well-formed but wrong signature", "1|1", 1},
		{"a well-formed but wrong signature for a block far in the future", "1|1", 1 << 30}, {"a malformed signature for a negative block index", "abc", -5},
	} {
		cases = append(cases, byzCase{name: "regular event of validator 1 carrying " + sg.name + fmt.Sprintf(" (block %d)", sg.index),
			sig: &hg.BlockSignature{Validator: sim.PubOf(1), Index: sg.index, Signature: sg.sig}})
	}
	// a stranger's JoinRequest whose internal transaction is correctly signed with the key it names but has a type this
	// version does not define (or asks for the stranger's own removal); it is pooled, gossiped, committed and answered by
	// the application like any other internal transaction
	for _, ty := range []int{1, 2, 7, 255} {
		itx := hg.NewInternalTransaction(hg.TransactionType(ty), *peers.NewPeer(sim.PubHex(7), "addr7", "stranger"))
		itx.Sign(sim.Key(7))
		cp := itx
		cases = append(cases, byzCase{name: fmt.Sprintf("self-signed join request of a stranger with internal-transaction type %d", ty), join: &cp})
	}
	return cases
}

func runByz(it HostileItem, res *HostileResult) {
	cases := byzCases()
	res.Total = len(cases)
	viol := func(key, what string, rp map[string]interface{}) {
		for _, v := range res.Viol {
			if v.Key == key {
				return
			}
		}
		res.Viol = append(res.Viol, ev.Violation{Property: "C08", Key: key, What: what, Replay: rp})
	}
	if it.From == 0 {
		runByzFastForward(res, viol)
	}
	cont := []sched.Action{{K: "G", A: 1, B: 0}, {K: "T", A: 0}, {K: "G", A: 0, B: 2}, {K: "G", A: 2, B: 0}, {K: "G", A: 0, B: 1}, {K: "G", A: 1, B: 0}}
	for k := it.From; k < len(cases) && k < it.To; k++ {
		bc := cases[k]
		for _, via := range []string{"eager-sync request", "sync response"} {
			x := c08BuildOn(it.State, bc.restart)
			c := x.C
			var w *hg.WireEvent
			var from uint32
			ok := true
			if bc.join != nil {
				if via != "eager-sync request" {
					x.Close()
					continue
				}
				via = "join request RPC"
			} else if bc.sig != nil {
				if via != "eager-sync request" {
					x.Close()
					continue
				}
				via = "validator 1's regular gossip"
			} else {
				w, from, ok = bc.mk(c)
			}
			if !ok {
				x.Close()
				continue
			}
			res.Attempts++
			fmt.Fprintf(os.Stderr, "ATTEMPT byz %s via %s\n", bc.name, via)
			cd := commitsDigest(c.Nodes[0])
			rp := map[string]interface{}{"state": it.State, "kind": "byz", "case": bc.name, "via": via}
			if bc.join != nil {
				c.ProcessRPC(0, "byz join", &net.JoinRequest{InternalTransaction: *bc.join})
			} else if bc.sig != nil {
				c.Nodes[1].Node.VSelfSigPool().Add(*bc.sig)
				x.Step(sched.Action{K: "G", A: 1, B: 0})
			} else if via == "eager-sync request" {
				c.ProcessRPC(0, "byz eager", &net.EagerSyncRequest{FromID: from, Events: []hg.WireEvent{*w}})
			} else {
				plan := &sim.Plan{MutateResp: func(kind string, resp interface{}) interface{} {
					if r, ok := resp.(*net.SyncResponse); ok {
						cp := *r
						cp.FromID = from
						cp.Events = []hg.WireEvent{*w}
						return &cp
					}
					return resp
				}}
				c.Pull(0, int(map[bool]int{true: 1, false: 2}[from == c.Nodes[1].Peer.ID()]), plan)
			}
			if c.Panic != "" {
				res.Panics++
				viol("panic:"+panicKey(c.Panic), fmt.Sprintf("%s via %s: panic: %s", bc.name, via, firstLines(c.Panic, 1)), rp)
				x.Close()
				continue
			}
			if d := commitsDigest(c.Nodes[0]); d != cd && !strings.HasPrefix(d, cd) {
				viol("delivered-blocks-changed", bc.name+" changed delivered blocks", rp)
			}
			// afterwards valid exchanges must work (they do on a twin that never saw the message) and new work commits
			twin := c08BuildOn(it.State, false)
			if bc.sig != nil {
				twin.Step(sched.Action{K: "G", A: 1, B: 0})
			}
			for _, a := range cont {
				if c.Panic != "" {
					break
				}
				e1 := x.Step(a)
				e2 := twin.Step(a)
				if e1 != nil && e2 == nil {
					viol("valid-exchange-fails-afterwards", fmt.Sprintf("after (%s, delivered as %s) the valid step %s fails with %v; on a twin that never saw it it succeeds", bc.name, via, a, e1), rp)
					break
				}
			}
			var sr sched.SuffixResult
			if c.Panic == "" {
				sr = x.FairSuffix(40)
			}
			if c.Panic != "" {
				// (a panic inside a critical section leaves the node's lock held: the instance is abandoned)
				res.Panics++
				viol("panic-afterwards:"+panicKey(c.Panic), fmt.Sprintf("after (%s, delivered as %s) a node panics while the cluster processes valid exchanges: %s", bc.name, via, firstLines(c.Panic, 1)), map[string]interface{}{"state": it.State, "kind": "byz", "case": bc.name, "via": via, "stack": firstLines(c.Panic, 40)})
				continue
			}
			if !sr.Quiescent && !x.Dead() {
				if st := twin.FairSuffix(40); st.Quiescent {
					viol("no-progress-afterwards", fmt.Sprintf("after (%s, delivered as %s) the cluster does not become quiescent within 40 fair cycles (%s); a twin that never saw it does", bc.name, via, sr.Reason), rp)
				}
			}
			if bc.restart && !x.Dead() {
				n0 := c.Nodes[0]
				known := fmt.Sprint(sortedKnown(n0.Store.KnownEvents()))
				cdBefore := commitsDigest(n0)
				if err := c.Restart(0, true, false); err != nil {
					viol("restart-failed-afterwards", fmt.Sprintf("after (%s) node 0 could not be restarted from its database: %v", bc.name, err), rp)
				} else {
					n1 := c.Nodes[0]
					if k := fmt.Sprint(sortedKnown(n1.Store.KnownEvents())); k != known {
						viol("history-lost-after-restart", fmt.Sprintf("after (%s, delivered as %s) and a restart from its database node 0 knows %s; before the restart it knew %s", bc.name, via, k, known), rp)
					}
					if d := commitsDigest(n1); d != cdBefore {
						viol("delivered-blocks-changed-after-restart", fmt.Sprintf("after (%s, delivered as %s) and a restart from its database node 0 re-delivers other blocks than it had delivered", bc.name, via), rp)
					}
					res.Outcomes["byz: restarted from the database afterwards"]++
				}
			}
			res.Rejected++
			res.Outcomes["byz: handled"]++
			res.Twins++
			if len(res.Samples) < 4 {
				res.Samples = append(res.Samples, "byz: "+bc.name+" via "+via)
			}
			twin.Close()
			x.Close()
		}
	}
}

func init() {
	// BX(A,B): an adversary holding validator B's key sends node A (as an eager-sync request from B) an event that
	// is correctly signed, built on B's last event known to A, and carries index last+2: A must refuse it.
	sched.CustomActions["BX"] = func(c *sim.Cluster, a sched.Action) error {
		var ferr error
		c.Custom(fmt.Sprintf("BX(%d,%d)", a.A, a.B), func() error { return nil })
		t := c.Nodes[a.A]
		l, err := t.Store.ParticipantEvents(sim.PubHex(a.B), -1)
		if err != nil || len(l) == 0 {
			return fmt.Errorf("BX: target knows no event of %d", a.B)
		}
		sp, err := t.Store.GetEvent(l[len(l)-1])
		if err != nil {
			return err
		}
		op, _ := t.Store.LastEventFrom(sim.PubHex(a.A))
		e := hg.NewEvent([][]byte{[]byte("byz")}, nil, nil, []string{sp.Hex(), op}, sim.PubOf(a.B), sp.Index()+2)
		e.Body.Timestamp = sim.BaseTime + 999
		if err := e.Sign(sim.Key(a.B)); err != nil {
			return err
		}
		if err := t.Node.VHashgraph().SetWireInfo(e); err != nil {
			return err
		}
		w := e.ToWire()
		_, ferr = c.ProcessRPC(a.A, "byz wrong-index event", &net.EagerSyncRequest{FromID: c.Nodes[a.B].Peer.ID(), Events: []hg.WireEvent{w}})
		return ferr
	}
}

// runByzFastForward: validator 2 (database, fast-sync) is restarted with bootstrap and is CatchingUp while it already
// holds delivered blocks 0..N. Validator 1, a peer it knows, answers its fast-forward requests with a well-formed
// response of its own making: a frame that declares validator 1 the only validator, a block signed by validator 1, the
// block index rewritten to K <= N and the round-received far ahead. Whatever the node does with it, the blocks it has
// delivered stay what they are and it keeps working.
func runByzFastForward(res *HostileResult, viol func(key, what string, rp map[string]interface{})) {
	sim.KeyShift = 1
	fsc := sched.Static(1, 44)
	fx := sched.NewExec(fsc, nil)
	fx.NoDigest = true
	for _, a := range fsc.Seed {
		fx.Step(a)
	}
	var forged *net.FastForwardResponse
	if r, err := fx.C.ProcessRPC(0, "capture ff", &net.FastForwardRequest{FromID: fx.C.Nodes[0].Peer.ID()}); err == nil && r != nil {
		forged = tamper.Copy(r.(*net.FastForwardResponse)).(*net.FastForwardResponse)
	}
	fx.Close()
	sim.KeyShift = 0
	if forged == nil {
		return
	}
	for _, kSel := range []string{"1", "last", "last-1"} {
		for _, rrAhead := range []int{10, 1000} {
			sc := &sched.Scenario{Name: "c08-byzff", Cfg: sim.Config{N: 3, Badger: map[int]bool{2: true}, FastSyncOf: map[int]bool{2: true}, Dir: scratchDir()}}
			x := sched.NewExec(sc, nil)
			x.NoDigest = true
			x.Step(sched.Action{K: "FF", A: 2})
			for _, a := range sched.FairSeed(nodesOf(3), 50, 4) {
				x.Step(a)
			}
			c := x.C
			x.Step(sched.Action{K: "Crash", A: 2})
			x.Step(sched.Action{K: "Restart", A: 2, Lim: 3})
			t := c.Nodes[2]
			last := t.Node.GetLastBlockIndex()
			k := 1
			switch kSel {
			case "last":
				k = last
			case "last-1":
				k = last - 1
			}
			if last < 2 || k < 1 {
				x.Close()
				continue
			}
			msg := tamper.Copy(forged).(*net.FastForwardResponse)
			msg.Block.Body.Index = k
			msg.Block.Body.RoundReceived = t.Node.GetLastConsensusRoundIndex() + rrAhead
			msg.Block.Signatures = map[string]string{}
			bs, _ := msg.Block.Sign(sim.Key(1))
			msg.Block.Signatures[bs.ValidatorHex()] = bs.Signature
			res.Attempts++
			cd := commitsDigest(t)
			restores := len(t.App.Restores)
			stored := map[int]string{}
			for i := 0; i <= last; i++ {
				if b, err := t.Node.GetBlock(i); err == nil {
					raw, _ := json.Marshal(b.Body)
					stored[i] = string(raw)
				}
			}
			hostile := &sim.Plan{AnswerAs: 1, AnswerAsSet: true, Answer: func(kind string, args interface{}) (interface{}, bool) {
				if kind == "ff" {
					return tamper.Copy(msg), true
				}
				return nil, false
			}}
			err := c.FastForward(2, hostile)
			rp := map[string]interface{}{"kind": "byz-ff", "block_index": k, "round_received_ahead": rrAhead}
			label := fmt.Sprintf("a fast-forward response made by known validator 1 alone (frame with itself as only validator, block signed by itself, index %d <= own last block %d, round-received %d ahead)", k, last, rrAhead)
			if c.Panic != "" {
				viol("panic:"+panicKey(c.Panic), label+": panic: "+firstLines(c.Panic, 1), rp)
				x.Close()
				continue
			}
			if len(t.App.Restores) != restores {
				viol("application-restored-to-a-hostile-snapshot", fmt.Sprintf("%s: the node's application was restored from the responder's snapshot (err=%v)", label, err), rp)
			}
			if d := commitsDigest(t); d != cd && !strings.HasPrefix(d, cd) {
				viol("delivered-blocks-changed", label+" changed delivered blocks", rp)
			}
			for i, want := range stored {
				b, berr := t.Node.GetBlock(i)
				if berr != nil {
					viol("delivered-block-no-longer-reported", fmt.Sprintf("%s: block %d, delivered before, is no longer reported (%v)", label, i, berr), rp)
					break
				}
				raw, _ := json.Marshal(b.Body)
				if string(raw) != want {
					viol("delivered-block-rewritten", fmt.Sprintf("%s: the node now reports another body for block %d, which it had delivered", label, i), rp)
					break
				}
			}
			res.Outcomes["byz: fast-forward response of a known validator's own making"]++
			x.Close()
		}
	}
}
