package main

import (
	"bytes"
	"encoding/json"
	"fmt"
	"math"
	"os"
	"path/filepath"
	"reflect"
	"sort"
	"strings"

	hg "github.com/mosaicnetworks/babble/src/hashgraph"
	"github.com/mosaicnetworks/babble/src/net"
	"github.com/mosaicnetworks/babble/src/peers"
	"verif/harness/ev"
	"verif/harness/sim"
)

func bin(n int, seed byte) []byte {
	b := make([]byte, n)
	for i := range b {
		b[i] = byte(i)*31 + seed
	}
	return b
}

func txShapes() map[string][][]byte {
	return map[string][][]byte{
		"nil":           nil,
		"[]":            {},
		"[[]]":          {{}},
		"[nil]":         {nil},
		"[bin]":         {{0x00, 0xff, 0x7f, 0x80, '"', '\\', '\n'}},
		"[bin,bin]":     {bin(5, 1), bin(300, 2)},
		"[0xff x 33]":   {bytes.Repeat([]byte{0xff}, 33)},
		"[64KB]":        {bin(65536, 3)},
		"[utf8-broken]": {{0xc3, 0x28, 0xe2, 0x82}},
	}
}

func itxShapes() map[string][]hg.InternalTransaction {
	leave := hg.NewInternalTransactionLeave(*peers.NewPeer(sim.PubHex(2), "addr2", "n2"))
	leave.Sign(sim.Key(2))
	five := []hg.InternalTransaction{}
	for i := 3; i < 8; i++ {
		five = append(five, sim.JoinTx(i))
	}
	// the same peer key under other spellings (the key is hashed and signed verbatim)
	lower := hg.NewInternalTransactionJoin(*peers.NewPeer(strings.ToLower(sim.PubHex(6)), "addr6", "n6"))
	lower.Sign(sim.Key(6))
	mixed := hg.NewInternalTransactionJoin(*peers.NewPeer("0X"+strings.ToLower(sim.PubHex(7)[2:]), "addr7", "n7"))
	mixed.Sign(sim.Key(7))
	return map[string][]hg.InternalTransaction{
		"nil": nil, "[]": {}, "[join]": {sim.JoinTx(5)}, "[join,leave]": {sim.JoinTx(5), leave}, "5": five,
		"[join lower-case 0x key]": {lower}, "[join 0X + lower-case digits]": {mixed},
	}
}

func sigShapes(creator int) map[string][]hg.BlockSignature {
	mk := func(n int) []hg.BlockSignature {
		out := []hg.BlockSignature{}
		for i := 0; i < n; i++ {
			b := hg.NewBlock(i, i+1, []byte("fh"), []*peers.Peer{peers.NewPeer(sim.PubHex(0), "", "")}, [][]byte{[]byte("x")}, nil, 5)
			bs, _ := b.Sign(sim.Key(creator))
			out = append(out, bs)
		}
		return out
	}
	return map[string][]hg.BlockSignature{"nil": nil, "[]": {}, "1": mk(1), "5": mk(5)}
}

func init() {
	checks["C15"] = func(args []string) int {
		rep := ev.NewReport("C15", "exploration")
		th := true // both tiers enumerate the full shape grammar (a minute)
		seen := map[string]bool{}
		viol := func(key, what string, rp map[string]interface{}) {
			if seen[key] {
				return
			}
			seen[key] = true
			rep.Violations = append(rep.Violations, ev.Violation{Property: "C15", Key: key, What: what, Replay: rp})
		}
		evals, distinct := 0, map[string]bool{}
		samples := []interface{}{}

		// a hashgraph that knows creators A (key 0) and B (key 1) and one event of each
		store := hg.NewInmemStore(1000)
		h := hg.NewHashgraph(store, hg.DummyInternalCommitCallback, discardLogger())
		ps := []*peers.Peer{peers.NewPeer(sim.PubHex(0), "addr0", "n0"), peers.NewPeer(sim.PubHex(1), "addr1", "n1")}
		h.Init(peers.NewPeerSet(ps))
		a0 := hg.NewEvent(nil, nil, nil, []string{"", ""}, sim.PubOf(0), 0)
		a0.Body.Timestamp = 1
		a0.Sign(sim.Key(0))
		b0 := hg.NewEvent(nil, nil, nil, []string{"", ""}, sim.PubOf(1), 0)
		b0.Body.Timestamp = 2
		b0.Sign(sim.Key(1))
		for _, e := range []*hg.Event{a0, b0} {
			if err := h.InsertEvent(e, true); err != nil {
				ev.Fail("C15 setup: %v", err)
			}
		}
		dir := filepath.Join(scratchDir(), "c15")
		defer os.RemoveAll(scratchDir())
		os.RemoveAll(dir)
		bstore, err := hg.NewBadgerStore(100, dir, false, quietBadger())
		if err != nil {
			ev.Fail("badger: %v", err)
		}
		type pending struct {
			label string
			e     *hg.Event
			hex   string
			raw   []byte
		}
		var batch []pending

		parentsShapes := map[string][]string{"none": {"", ""}, "self": {a0.Hex(), ""}, "self+other": {a0.Hex(), b0.Hex()}, "other only": {"", b0.Hex()}}
		ints := []int{0, 1, -1, math.MaxInt64}
		tss := []int64{0, 1, -1, math.MaxInt64}
		txs, itxs, sigs := txShapes(), itxShapes(), sigShapes(0)
		names := func(m interface{}) []string {
			ks := []string{}
			for _, k := range reflect.ValueOf(m).MapKeys() {
				ks = append(ks, k.String())
			}
			sort.Strings(ks)
			return ks
		}
		payloadEq := func(a, b [][]byte) bool {
			if len(a) != len(b) {
				return false
			}
			for i := range a {
				if !bytes.Equal(a[i], b[i]) {
					return false
				}
			}
			return true
		}
		for _, tn := range names(txs) {
			for _, in := range names(itxs) {
				for _, sn := range names(sigs) {
					for _, pn := range names(parentsShapes) {
						for ii, idx := range ints {
							for ti, ts := range tss {
								if !th && (ii+ti)%2 == 1 && tn != "[bin]" {
									continue // quick: half of the index x timestamp grid except for the binary payload
								}
								label := fmt.Sprintf("txs=%s itxs=%s sigs=%s parents=%s index=%d ts=%d", tn, in, sn, pn, idx, ts)
								e := hg.NewEvent(txs[tn], itxs[in], sigs[sn], append([]string{}, parentsShapes[pn]...), sim.PubOf(0), idx)
								e.Body.Timestamp = ts
								if err := e.Sign(sim.Key(0)); err != nil {
									viol("sign-failed", label+": "+err.Error(), nil)
									continue
								}
								evals++
								distinct[fmt.Sprintf("%s|%s|%s|%s", tn, in, sn, pn)] = true
								hex0 := e.Hex()
								if ok, err := e.Verify(); !ok || err != nil {
									viol("fresh-event-does-not-verify", fmt.Sprintf("%s: Verify()=%v,%v right after Sign", label, ok, err), map[string]interface{}{"shape": label})
									continue
								}
								if len(samples) < 5 {
									samples = append(samples, label)
								}
								// (1) wire form through the transport's JSON encoding and back
								if err := h.SetWireInfo(e); err != nil {
									viol("setwireinfo-failed", label+": "+err.Error(), map[string]interface{}{"shape": label})
									continue
								}
								req := net.EagerSyncRequest{FromID: 1, Events: []hg.WireEvent{e.ToWire()}}
								raw, err := json.Marshal(&req)
								if err != nil {
									viol("wire-json-encode", label+": "+err.Error(), map[string]interface{}{"shape": label})
									continue
								}
								var back net.EagerSyncRequest
								if err := json.Unmarshal(raw, &back); err != nil {
									viol("wire-json-decode", label+": "+err.Error(), map[string]interface{}{"shape": label})
									continue
								}
								re, err := h.ReadWireInfo(back.Events[0])
								if err != nil {
									viol("readwireinfo-failed", label+": "+err.Error(), map[string]interface{}{"shape": label})
									continue
								}
								if re.Hex() != hex0 {
									viol("wire-hash-changed:"+tn+"/"+in+"/"+sn, fmt.Sprintf("%s: hash after ToWire -> JSON -> ReadWireInfo is %s, was %s", label, re.Hex()[:12], hex0[:12]), map[string]interface{}{"shape": label})
								} else if ok, _ := re.Verify(); !ok {
									viol("wire-signature-invalid", label+": signature no longer verifies after the wire round trip", map[string]interface{}{"shape": label})
								}
								if !payloadEq(re.Transactions(), e.Transactions()) {
									viol("wire-payload-changed:"+tn, label+": transaction bytes differ after the wire round trip", map[string]interface{}{"shape": label})
								}
								if !reflect.DeepEqual(re.ToWire(), back.Events[0]) && re.Hex() == hex0 {
									if a, _ := json.Marshal(re.ToWire()); !bytes.Equal(a, mustJSON(back.Events[0])) {
										viol("wire-info-changed", label+": wire form of the reconstructed event differs from the received wire form", map[string]interface{}{"shape": label})
									}
								}
								// (2) database form
								dbraw, err := e.MarshalDB()
								if err != nil {
									viol("marshaldb-failed", label+": "+err.Error(), map[string]interface{}{"shape": label})
									continue
								}
								de := new(hg.Event)
								if err := de.UnmarshalDB(dbraw); err != nil {
									viol("unmarshaldb-failed", label+": "+err.Error(), map[string]interface{}{"shape": label})
									continue
								}
								if de.Hex() != hex0 {
									viol("db-hash-changed:"+tn+"/"+in+"/"+sn, fmt.Sprintf("%s: hash after MarshalDB/UnmarshalDB is %s, was %s", label, de.Hex()[:12], hex0[:12]), map[string]interface{}{"shape": label})
								} else if ok, _ := de.Verify(); !ok {
									viol("db-signature-invalid", label+": signature no longer verifies after MarshalDB/UnmarshalDB", map[string]interface{}{"shape": label})
								}
								if !payloadEq(de.Transactions(), e.Transactions()) {
									viol("db-payload-changed:"+tn, label+": transaction bytes differ after MarshalDB/UnmarshalDB", map[string]interface{}{"shape": label})
								}
								if !bytes.Equal(mustJSON(de.ToWire()), mustJSON(e.ToWire())) {
									viol("db-wire-info-changed", label+": wire ids/indexes differ after MarshalDB/UnmarshalDB", map[string]interface{}{"shape": label})
								}
								batch = append(batch, pending{label, e, hex0, dbraw})
							}
						}
					}
				}
			}
		}
		// (3) a real Badger database: write, close, reopen, read
		evs := make([]*hg.Event, len(batch))
		for i, p := range batch {
			evs[i] = p.e
		}
		for i := 0; i < len(evs); i += 200 {
			j := i + 200
			if j > len(evs) {
				j = len(evs)
			}
			if err := bstore.VDbSetEvents(evs[i:j]); err != nil {
				viol("badger-write-failed", err.Error(), nil)
			}
		}
		bstore.Close()
		bstore, err = hg.NewBadgerStore(100, dir, false, quietBadger())
		if err != nil {
			ev.Fail("badger reopen: %v", err)
		}
		for _, p := range batch {
			evals++
			de, err := bstore.VDbGetEvent(p.hex)
			if err != nil {
				viol("badger-read-failed", p.label+": "+err.Error(), map[string]interface{}{"shape": p.label})
				continue
			}
			if de.Hex() != p.hex {
				viol("badger-hash-changed", p.label+": hash changed after Badger write/close/reopen/read", map[string]interface{}{"shape": p.label})
			} else if ok, _ := de.Verify(); !ok {
				viol("badger-signature-invalid", p.label+": signature invalid after Badger round trip", map[string]interface{}{"shape": p.label})
			}
			if !payloadEq(de.Transactions(), p.e.Transactions()) {
				viol("badger-payload-changed", p.label+": payload differs after Badger round trip", map[string]interface{}{"shape": p.label})
			}
		}
		// blocks ------------------------------------------------------------
		blockEvals := 0
		for _, tn := range names(txs) {
			for _, in := range names(itxs) {
				for nsig := 0; nsig <= 5; nsig++ {
					for _, sh := range [][]byte{nil, {}, bin(32, 9), {0x00, 0xff}} {
						for nrec := 0; nrec <= 2; nrec++ {
							label := fmt.Sprintf("block txs=%s itxs=%s sigs=%d statehash=%d bytes(nil=%v) receipts=%d", tn, in, nsig, len(sh), sh == nil, nrec)
							pl := []*peers.Peer{}
							for i := 0; i < 5; i++ {
								pl = append(pl, peers.NewPeer(sim.PubHex(i), fmt.Sprintf("a%d", i), ""))
							}
							b := hg.NewBlock(7, 9, bin(32, 4), pl, txs[tn], itxs[in], 12345)
							b.Body.StateHash = sh
							for r := 0; r < nrec && r < len(itxs[in]); r++ {
								it := itxs[in][r]
								if r%2 == 0 {
									b.Body.InternalTransactionReceipts = append(b.Body.InternalTransactionReceipts, it.AsAccepted())
								} else {
									b.Body.InternalTransactionReceipts = append(b.Body.InternalTransactionReceipts, it.AsRefused())
								}
							}
							var sigl []hg.BlockSignature
							for i := 0; i < nsig; i++ {
								bs, _ := b.Sign(sim.Key(i))
								b.SetSignature(bs)
								sigl = append(sigl, bs)
							}
							bh0, _ := b.Body.Hash()
							blockEvals++
							distinct["block|"+tn+"|"+in] = true
							check := func(via string, nb *hg.Block) {
								bh, _ := nb.Body.Hash()
								if !bytes.Equal(bh, bh0) {
									viol("block-hash-changed:"+via+":"+tn+"/"+in, fmt.Sprintf("%s: body hash changed through %s", label, via), map[string]interface{}{"shape": label})
									return
								}
								for _, s := range sigl {
									got, err := nb.GetSignature(s.ValidatorHex())
									if err != nil {
										viol("block-signature-lost:"+via, fmt.Sprintf("%s: signature of %s lost through %s", label, s.ValidatorHex()[:10], via), map[string]interface{}{"shape": label})
										continue
									}
									if ok, _ := nb.Verify(got); !ok {
										viol("block-signature-invalid:"+via, fmt.Sprintf("%s: signature invalid after %s", label, via), map[string]interface{}{"shape": label})
									}
								}
								if !payloadEq(nb.Transactions(), b.Transactions()) {
									viol("block-payload-changed:"+via, label+": transactions differ after "+via, map[string]interface{}{"shape": label})
								}
							}
							// Marshal / Unmarshal
							raw, _ := b.Marshal()
							nb := new(hg.Block)
							if err := nb.Unmarshal(raw); err != nil {
								viol("block-unmarshal", label+": "+err.Error(), nil)
							} else {
								check("Marshal/Unmarshal", nb)
							}
							// FastForwardResponse JSON
							ff := net.FastForwardResponse{FromID: 1, Block: *b, Snapshot: []byte{1}}
							raw, _ = json.Marshal(&ff)
							var ff2 net.FastForwardResponse
							if err := json.Unmarshal(raw, &ff2); err != nil {
								viol("block-ff-json", label+": "+err.Error(), nil)
							} else {
								check("FastForwardResponse JSON", &ff2.Block)
							}
							// Badger
							if err := bstore.SetBlock(b); err == nil {
								if db, err := bstore.VDbGetBlock(7); err == nil {
									check("Badger", db)
								} else {
									viol("block-badger-read", label+": "+err.Error(), nil)
								}
							}
						}
					}
				}
			}
		}
		bstore.Close()
		// frames --------------------------------------------------------------
		frameEvals := 0
		lowerKeys := false
		mkFrame := func(npeers, depth int, order []int) *hg.Frame {
			pl := []*peers.Peer{}
			for i := 0; i < npeers; i++ {
				k := sim.PubHex(i)
				if lowerKeys && i%2 == 0 {
					k = strings.ToLower(k)
				}
				pl = append(pl, peers.NewPeer(k, fmt.Sprintf("addr%d", i), fmt.Sprintf("n%d", i)))
			}
			f := &hg.Frame{Round: 5, Peers: pl, Roots: map[string]*hg.Root{}, Events: []*hg.FrameEvent{}, PeerSets: map[int][]*peers.Peer{}, Timestamp: 99}
			// maps filled in the given order
			keys := []int{0, 3, 11, 12}
			for _, k := range order {
				if k < len(keys) {
					f.PeerSets[keys[k]] = pl[:1+k%npeers]
				}
			}
			for _, k := range order {
				i := k % npeers
				if _, ok := f.Roots[sim.PubHex(i)]; ok {
					continue
				}
				r := hg.NewRoot()
				prev := ""
				for d := 0; d < depth; d++ {
					e := hg.NewEvent([][]byte{bin(3, byte(d))}, nil, nil, []string{prev, ""}, sim.PubOf(i), d)
					e.Body.Timestamp = int64(d)
					e.Sign(sim.Key(i))
					prev = e.Hex()
					r.Insert(&hg.FrameEvent{Core: e, Round: d / 3, LamportTimestamp: d, Witness: d%3 == 0})
				}
				f.Roots[sim.PubHex(i)] = r
			}
			for i := 0; i < npeers; i++ {
				if _, ok := f.Roots[sim.PubHex(i)]; !ok {
					f.Roots[sim.PubHex(i)] = hg.NewRoot()
				}
			}
			e := hg.NewEvent([][]byte{bin(9, 1)}, nil, nil, []string{"", ""}, sim.PubOf(0), 20)
			e.Sign(sim.Key(0))
			f.Events = append(f.Events, &hg.FrameEvent{Core: e, Round: 4, LamportTimestamp: 30, Witness: true})
			return f
		}
		perms := [][]int{{0, 1, 2, 3}, {3, 2, 1, 0}, {1, 3, 0, 2}, {2, 0, 3, 1}, {0, 2, 1, 3}, {3, 1, 2, 0}}
		if th {
			perms = allPerms(4)
		}
		for _, lk := range []bool{false, true} {
			lowerKeys = lk
			for np := 1; np <= 4; np++ {
				for _, depth := range []int{0, 1, 10, 11} {
					var h0 []byte
					for pi, perm := range perms {
						f := mkFrame(np, depth, perm)
						fh, err := f.Hash()
						frameEvals++
						distinct[fmt.Sprintf("frame|%d|%d", np, depth)] = true
						if err != nil {
							viol("frame-hash-error", err.Error(), nil)
							continue
						}
						if pi == 0 {
							h0 = fh
						} else if !bytes.Equal(fh, h0) {
							viol("frame-hash-depends-on-fill-order", fmt.Sprintf("frame with %d peers, root depth %d: hash differs when the maps are filled in order %v instead of %v", np, depth, perm, perms[0]), map[string]interface{}{"peers": np, "depth": depth, "order": perm})
						}
						// through Marshal/Unmarshal and the FastForwardResponse JSON
						raw, _ := f.Marshal()
						nf := new(hg.Frame)
						if err := nf.Unmarshal(raw); err != nil {
							viol("frame-unmarshal", err.Error(), nil)
						} else if nh, _ := nf.Hash(); !bytes.Equal(nh, fh) {
							viol("frame-hash-changed:Marshal/Unmarshal", fmt.Sprintf("frame with %d peers, root depth %d: hash changed through Marshal/Unmarshal", np, depth), map[string]interface{}{"peers": np, "depth": depth})
						}
						ff := net.FastForwardResponse{Frame: *f}
						raw, _ = json.Marshal(&ff)
						var ff2 net.FastForwardResponse
						if err := json.Unmarshal(raw, &ff2); err != nil {
							viol("frame-ff-json", err.Error(), nil)
						} else if nh, _ := ff2.Frame.Hash(); !bytes.Equal(nh, fh) {
							viol("frame-hash-changed:FastForwardResponse JSON", fmt.Sprintf("frame with %d peers, root depth %d: hash changed through the FastForwardResponse JSON encoding", np, depth), map[string]interface{}{"peers": np, "depth": depth})
						}
						// a frame that arrived through the transport is read by the receiver (Reset lists its events in
						// consensus order): reading must not change it. Variant with nine frame events, as decoded.
						{
							multi := mkFrame(np, depth, perm)
							base := multi.Events[0]
							for k := 1; k <= 8; k++ {
								multi.Events = append(multi.Events, &hg.FrameEvent{Core: base.Core, Round: 4, LamportTimestamp: 30 + k, Witness: false})
							}
							raw, _ := json.Marshal(&net.FastForwardResponse{Frame: *multi})
							var ff3 net.FastForwardResponse
							if err := json.Unmarshal(raw, &ff3); err == nil {
								h1, _ := ff3.Frame.Hash()
								listed := ff3.Frame.SortedFrameEvents()
								h2, _ := ff3.Frame.Hash()
								frameEvals++
								if !bytes.Equal(h1, h2) {
									viol("frame-changed-by-reading:SortedFrameEvents", fmt.Sprintf("frame with %d peers, root depth %d, 9 events, decoded from the FastForwardResponse JSON: its hash differs after SortedFrameEvents() listed its %d events", np, depth, len(listed)), map[string]interface{}{"peers": np, "depth": depth})
								}
							}
						}
						for _, r := range ff2.Frame.Roots {
							for _, fe := range r.Events {
								if ok, _ := fe.Core.Verify(); !ok {
									viol("frame-event-signature-invalid", "a root event no longer verifies after the FastForwardResponse JSON encoding", nil)
								}
							}
						}
					}
				}
			}
		}
		cov := rep.Coverage
		cov["evaluations"] = evals + blockEvals + frameEvals
		cov["distinct_nontrivial"] = len(distinct)
		cov["events"] = len(batch)
		cov["blocks"] = blockEvals
		cov["frames"] = frameEvals
		cov["exhaustive"] = true
		cov["samples"] = samples
		cov["rule"] = "full cross product of the shape grammar: events {transactions: " + strings.Join(names(txs), ", ") + "} x {internal transactions: " + strings.Join(names(itxs), ", ") + "} x {block signatures: nil, [], 1, 5} x {parents: none, self, self+other, other only} x {index, timestamp in 0,1,-1,Max} (quick: half of the index x timestamp grid), each through ToWire -> transport JSON -> ReadWireInfo on a hashgraph that knows the parents, MarshalDB/UnmarshalDB, and a real Badger write/close/reopen/read; blocks (same payload grammars x 0..5 signatures x state hash nil/empty/32 bytes/binary x 0..2 receipts) through Marshal/Unmarshal, the FastForwardResponse JSON and Badger; frames (1..4 peers with upper-case and lower-case key spellings, root depth 0,1,10,11, peer-set and root maps filled in several insertion orders) through Marshal/Unmarshal and the FastForwardResponse JSON. Oracle: identical Hex()/Hash(), Verify() still true, payload bytes identical, wire ids identical; frame hash independent of map fill order. distinct_nontrivial = distinct (payload shape, itx shape, signature shape, parents) classes"
		return rep.Finish()
	}
}

func mustJSON(v interface{}) []byte {
	raw, err := json.Marshal(v)
	if err != nil {
		return []byte("!" + err.Error())
	}
	return raw
}

func allPerms(n int) [][]int {
	var res [][]int
	var rec func(cur []int, used []bool)
	rec = func(cur []int, used []bool) {
		if len(cur) == n {
			res = append(res, append([]int{}, cur...))
			return
		}
		for i := 0; i < n; i++ {
			if !used[i] {
				used[i] = true
				rec(append(cur, i), used)
				used[i] = false
			}
		}
	}
	rec(nil, make([]bool, n))
	return res
}
