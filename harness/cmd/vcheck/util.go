package main

import (
	"crypto/sha256"
	"io"
	"runtime/debug"

	"github.com/mosaicnetworks/babble/src/peers"
	"github.com/sirupsen/logrus"
)

func discardLogger() *logrus.Entry {
	l := logrus.New()
	l.Out = io.Discard
	l.Level = logrus.PanicLevel
	return logrus.NewEntry(l)
}

func sha(s string) []byte {
	h := sha256.Sum256([]byte(s))
	return h[:]
}

func stackHere() string { return string(debug.Stack()) }

func mkHonestPeer(pub string) *peers.Peer { return peers.NewPeer(pub, "addr0", "n0") }

func quietBadger() *logrus.Entry { return discardLogger() }
