package main

import (
	"io"

	"github.com/sirupsen/logrus"
)

func discardLogger() *logrus.Entry {
	l := logrus.New()
	l.Out = io.Discard
	l.Level = logrus.PanicLevel
	return logrus.NewEntry(l)
}
