package main

import (
	"crypto/sha256"
	"encoding/json"
	"fmt"
	"io"
	"os"
	"runtime/debug"
	"strings"

	"github.com/mosaicnetworks/babble/src/peers"
	"github.com/sirupsen/logrus"
	"verif/harness/ev"
	"verif/harness/explore"
)

func discardLogger() *logrus.Entry {
	l := logrus.New()
	l.Out = io.Discard
	l.Level = logrus.PanicLevel
	return logrus.NewEntry(l)
}

func sha(s string) []byte {
	h := sha256.Sum256([]byte(s))
	return h[:]
}

func stackHere() string { return string(debug.Stack()) }

func mkHonestPeer(pub string) *peers.Peer { return peers.NewPeer(pub, "addr0", "n0") }

func quietBadger() *logrus.Entry { return discardLogger() }

// attachItem records, in every violation, the work item that produced it, so
// that `vcheck <ID> --replay <file>` can re-run exactly that item.
func attachItem(vs []ev.Violation, mode string, raw json.RawMessage) {
	for i := range vs {
		if vs[i].Replay == nil {
			vs[i].Replay = map[string]interface{}{}
		}
		vs[i].Replay["worker_mode"] = mode
		vs[i].Replay["item"] = json.RawMessage(raw)
	}
}

// replayFile re-runs the work item stored in a replay file in this process
// and reports the violations it produces (exit 1 if the recorded key shows up again).
func replayFile(prop, path string) int {
	raw, err := os.ReadFile(path)
	if err != nil {
		fmt.Fprintln(os.Stderr, "replay:", err)
		return 2
	}
	var v struct {
		Key    string                     `json:"key"`
		What   string                     `json:"what"`
		Replay map[string]json.RawMessage `json:"replay"`
	}
	if err := json.Unmarshal(raw, &v); err != nil {
		fmt.Fprintln(os.Stderr, "replay:", err)
		return 2
	}
	var mode string
	json.Unmarshal(v.Replay["worker_mode"], &mode)
	item := v.Replay["item"]
	if mode == "" || len(item) == 0 {
		fmt.Println("this replay file carries no work item: the check runs in one process; re-run `./check " + prop + "` to reproduce: " + v.What)
		return 2
	}
	fmt.Printf("replaying %s item %s\n", mode, string(item))
	out, err := explore.Call(mode, item)
	if err != nil {
		fmt.Fprintln(os.Stderr, "replay:", err)
		return 2
	}
	var res struct {
		Viol []ev.Violation `json:"viol"`
	}
	json.Unmarshal(out, &res)
	code := 0
	for _, x := range res.Viol {
		k := x.Key
		fmt.Printf("reproduced: [%s] %s\n", k, x.What)
		if strings.HasSuffix(v.Key, k) || k == v.Key {
			code = 1
		}
	}
	if code == 1 {
		fmt.Printf("VIOLATION property=%s replay=%s\n", prop, path)
	} else {
		fmt.Println("the recorded violation did not reproduce on the current tree")
	}
	return code
}

// lastAttempt extracts the last announced attempt from a worker's stderr tail.
func lastAttempt(tail string) string {
	i := strings.LastIndex(tail, "ATTEMPT ")
	if i < 0 {
		return "(unknown attempt)"
	}
	l := tail[i+8:]
	if j := strings.Index(l, "\n"); j >= 0 {
		l = l[:j]
	}
	return l
}

// jsonRoundTrip copies in to out through the JSON encoding.
func jsonRoundTrip(in interface{}, out interface{}) {
	raw, err := json.Marshal(in)
	if err != nil {
		panic(err)
	}
	if err := json.Unmarshal(raw, out); err != nil {
		panic(err)
	}
}
