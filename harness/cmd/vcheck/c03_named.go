package main

import (
	"fmt"
	"strings"

	hg "github.com/mosaicnetworks/babble/src/hashgraph"
	"verif/harness/dag"
	"verif/harness/sim"
)

// hand-drawn DAGs (the shape of the repository's "funky" hashgraph test, where a creator's next
// witness exists before another creator has any descendant of its previous witness)

type playT struct {
	to          int
	index       int
	self, other string
	name        string
}

func buildPlays(n int, firsts []string, plays []playT) []dag.Ev {
	byName := map[string]*hg.Event{}
	var out []dag.Ev
	add := func(c, idx int, self, other, name string) {
		sp, op := "", ""
		if self != "" {
			sp = byName[self].Hex()
		}
		if other != "" {
			op = byName[other].Hex()
		}
		e := hg.NewEvent([][]byte{[]byte(name)}, nil, nil, []string{sp, op}, sim.PubOf(c), idx)
		e.Body.Timestamp = sim.BaseTime + int64(len(out))
		if err := e.Sign(sim.Key(c)); err != nil {
			panic(err)
		}
		byName[name] = e
		out = append(out, dag.FromEvent(e, c))
	}
	for i, nm := range firsts {
		add(i, 0, "", "", nm)
	}
	for _, p := range plays {
		if _, ok := byName[p.self]; p.self != "" && !ok {
			panic(fmt.Sprintf("play %s: unknown self parent %s", p.name, p.self))
		}
		add(p.to, p.index, p.self, p.other, p.name)
	}
	return out
}

func funkyPlays(shift int) []playT {
	s := shift
	return []playT{
		{2, 1 + s, "w02", "w03", "a23"}, {1, 1 + s, "w01", "a23", "a12"}, {0, 1 + s, "w00", "", "a00"}, {1, 2 + s, "a12", "a00", "a10"},
		{2, 2 + s, "a23", "a12", "a21"}, {3, 1 + s, "w03", "a21", "w13"}, {2, 3 + s, "a21", "w13", "w12"}, {1, 3 + s, "a10", "w12", "w11"},
		{0, 2 + s, "a00", "w11", "w10"}, {2, 4 + s, "w12", "w11", "b21"}, {3, 2 + s, "w13", "b21", "w23"}, {1, 4 + s, "w11", "w23", "w21"},
		{0, 3 + s, "w10", "", "b00"}, {1, 5 + s, "w21", "b00", "c10"}, {2, 5 + s, "b21", "c10", "w22"}, {0, 4 + s, "b00", "w22", "w20"},
		{1, 6 + s, "c10", "w20", "w31"}, {2, 6 + s, "w22", "w31", "w32"}, {0, 5 + s, "w20", "w32", "w30"}, {3, 3 + s, "w23", "w32", "w33"},
		{1, 7 + s, "w31", "w33", "d13"}, {0, 6 + s, "w30", "d13", "w40"}, {1, 8 + s, "d13", "w40", "w41"}, {2, 7 + s, "w32", "w41", "w42"},
		{3, 4 + s, "w33", "w42", "w43"}, {2, 8 + s, "w42", "w43", "e23"}, {1, 9 + s, "w41", "e23", "w51"},
	}
}

// namedDag returns a hand-drawn DAG and its number of creators.
func namedDag(name string) ([]dag.Ev, int) {
	switch name {
	case "funky":
		return buildPlays(4, []string{"w00", "w01", "w02", "w03"}, funkyPlays(0)), 4
	case "coinround":
		return namedCoin(-1)
	case "outoforder":
		return namedDev(outOfOrderPlays, -1)
	}
	if strings.HasPrefix(name, "outoforder~") {
		return namedDev(outOfOrderPlays, atoi(strings.TrimPrefix(name, "outoforder~")))
	}
	if strings.HasPrefix(name, "coinround~") {
		return namedCoin(atoi(strings.TrimPrefix(name, "coinround~")))
	}
	switch name {
	case "coinround-unused":
		var firsts []string
		var rest []playT
		for _, p := range coinRoundPlays {
			if p.self == "" && p.other == "" && p.index == 0 && len(firsts) == p.to {
				firsts = append(firsts, p.name)
			} else {
				rest = append(rest, p)
			}
		}
		return buildPlays(4, firsts, rest), 4
	case "funkystacked":
		// one extra round below: z0..z3, three layers of ring gossip, then w00..w03 as the fourth layer
		var pre []playT
		prev := []string{"z0", "z1", "z2", "z3"}
		idx := []int{0, 0, 0, 0}
		for layer := 1; layer <= 3; layer++ {
			cur := make([]string, 4)
			for i := 0; i < 4; i++ {
				nm := fmt.Sprintf("y%d%d", layer, i)
				idx[i]++
				other := prev[(i+3)%4]
				if i > 0 {
					other = cur[i-1]
				}
				pre = append(pre, playT{i, idx[i], prev[i], other, nm})
				cur[i] = nm
			}
			prev = cur
		}
		for i := 0; i < 4; i++ {
			idx[i]++
			other := prev[(i+3)%4]
			if i > 0 {
				other = fmt.Sprintf("w0%d", i-1)
			}
			pre = append(pre, playT{i, idx[i], prev[i], other, fmt.Sprintf("w0%d", i)})
		}
		return buildPlays(4, []string{"z0", "z1", "z2", "z3"}, append(pre, funkyPlays(4)...)), 4
	}
	return nil, 0
}

// namedCoin builds the coin-round DAG; dev >= 0 selects a single-event deviation of it: event number
// dev takes as other-parent the previous event of the same other creator instead (a slightly older view),
// all later events are re-signed on top. dev beyond the list or an event without such an alternative
// yields nil.
func namedCoin(dev int) ([]dag.Ev, int) { return namedDev(coinRoundPlays, dev) }

// namedDev: the same single-event deviation for any list of plays.
func namedDev(base []playT, dev int) ([]dag.Ev, int) {
	plays := append([]playT{}, base...)
	if dev >= 0 {
		if dev >= len(plays) || plays[dev].other == "" {
			return nil, 0
		}
		// previous event of the other-parent's creator
		var oc, oi = -1, -1
		for _, p := range plays {
			if p.name == plays[dev].other {
				oc, oi = p.to, p.index
			}
		}
		alt := ""
		for _, p := range plays[:dev] {
			if p.to == oc && p.index == oi-1 {
				alt = p.name
			}
		}
		if alt == "" {
			return nil, 0
		}
		plays[dev].other = alt
	}
	var firsts []string
	var rest []playT
	for _, p := range plays {
		if p.self == "" && p.other == "" && p.index == 0 && len(firsts) == p.to {
			firsts = append(firsts, p.name)
		} else {
			rest = append(rest, p)
		}
	}
	return buildPlays(4, firsts, rest), 4
}
