package main

import (
	"encoding/json"
	"fmt"
	"math"
	"os"
	"sort"
	"strings"
	"time"

	"github.com/mosaicnetworks/babble/src/common"
	hg "github.com/mosaicnetworks/babble/src/hashgraph"
	"verif/harness/dag"
	"verif/harness/ev"
	"verif/harness/explore"
	"verif/harness/mon"
	"verif/harness/sched"
	"verif/harness/sim"
)

// AdmitItem: attempts in the states reached by prefixes [From,To) of a base DAG.
type AdmitItem struct {
	Base  string `json:"base"`
	From  int    `json:"from"`
	To    int    `json:"to"`
	Pairs bool   `json:"pairs"`
	// Reset > 0: the states are those of a hashgraph that was Reset (fast-sync) to block Reset-1 and its frame
	// of a full instance of the base DAG, with From..To further events of the base inserted on top
	Reset int `json:"reset,omitempty"`
	// Cache > 0: the in-memory store's cache size (default 10000)
	Cache int `json:"cache,omitempty"`
}

type AdmitResult struct {
	States    int            `json:"states"`
	Attempts  int            `json:"attempts"`
	Accepted  int            `json:"accepted"`
	Rejected  int            `json:"rejected"`
	Panics    int            `json:"panics"`
	Twins     int            `json:"twins"`
	Premature int            `json:"premature"`
	Verdicts  map[string]int `json:"verdicts"` // operator → accepted count
	Viol      []ev.Violation `json:"viol,omitempty"`
	Samples   []string       `json:"samples,omitempty"`
	PanicOps  map[string]int `json:"panic_ops"`
	Distinct  int            `json:"distinct"`
}

// operator on an event body; returns false if not applicable
type admitOp struct {
	name string
	f    func(b *hg.EventBody, cx *admitCtx) bool
	sig  string // "", "other-key", "malformed", "empty": signature operators are applied after (re)signing
}

type admitCtx struct {
	cand       dag.Ev
	lastOf     map[string]string // creator hex → last event hash
	byHash     map[string]*hg.Event
	order      []string
	creatorIdx int
}

func hexOf(b []byte) string { return common.EncodeToString(b) }

func admitOps() []admitOp {
	ops := []admitOp{}
	for _, d := range []int{-2, -1, 0, 1, 2} {
		dd := d
		ops = append(ops, admitOp{name: fmt.Sprintf("index=correct%+d", dd), f: func(b *hg.EventBody, cx *admitCtx) bool {
			if dd == 0 {
				return false
			}
			b.Index = cx.cand.Body.Index + dd
			return true
		}})
	}
	for _, v := range []int{0, -1, -3, 5, math.MaxInt32, math.MaxInt64} {
		vv := v
		ops = append(ops, admitOp{name: fmt.Sprintf("index=%d", vv), f: func(b *hg.EventBody, cx *admitCtx) bool {
			if cx.cand.Body.Index == vv {
				return false
			}
			b.Index = vv
			return true
		}})
	}
	ops = append(ops,
		admitOp{name: "selfparent=none", f: func(b *hg.EventBody, cx *admitCtx) bool {
			if b.Parents[0] == "" {
				return false
			}
			b.Parents[0] = ""
			return true
		}},
		admitOp{name: "selfparent=older-own-event(fork)", f: func(b *hg.EventBody, cx *admitCtx) bool {
			sp := cx.byHash[b.Parents[0]]
			if sp == nil || sp.SelfParent() == "" {
				return false
			}
			b.Parents[0] = sp.SelfParent()
			return true
		}},
		admitOp{name: "selfparent=other-creators-event", f: func(b *hg.EventBody, cx *admitCtx) bool {
			for c, h := range cx.lastOf {
				if c != hexOf(b.Creator) {
					b.Parents[0] = h
					return true
				}
			}
			return false
		}},
		admitOp{name: "selfparent=unknown-hash", f: func(b *hg.EventBody, cx *admitCtx) bool {
			b.Parents[0] = "0X" + strings.Repeat("AB", 32)
			return true
		}},
		admitOp{name: "selfparent=other-spelling-of-the-right-hash", f: func(b *hg.EventBody, cx *admitCtx) bool {
			// hashes are exact-match keys of the DAG: the same hex digits in lower case name no event
			if b.Parents[0] == "" || strings.ToLower(b.Parents[0]) == b.Parents[0] {
				return false
			}
			b.Parents[0] = strings.ToLower(b.Parents[0])
			return true
		}},
		admitOp{name: "otherparent=other-spelling-of-the-right-hash", f: func(b *hg.EventBody, cx *admitCtx) bool {
			if b.Parents[1] == "" || strings.ToLower(b.Parents[1]) == b.Parents[1] {
				return false
			}
			b.Parents[1] = strings.ToLower(b.Parents[1])
			return true
		}},
		admitOp{name: "selfparent=malformed", f: func(b *hg.EventBody, cx *admitCtx) bool { b.Parents[0] = "zz"; return true }},
		admitOp{name: "otherparent=none", f: func(b *hg.EventBody, cx *admitCtx) bool {
			if b.Parents[1] == "" {
				return false
			}
			b.Parents[1] = ""
			return true
		}},
		admitOp{name: "otherparent=another-known-event", f: func(b *hg.EventBody, cx *admitCtx) bool {
			for _, h := range cx.order {
				if h != b.Parents[1] && h != b.Parents[0] {
					b.Parents[1] = h
					return true
				}
			}
			return false
		}},
		admitOp{name: "otherparent=unknown-hash", f: func(b *hg.EventBody, cx *admitCtx) bool {
			b.Parents[1] = "0X" + strings.Repeat("CD", 32)
			return true
		}},
		admitOp{name: "otherparent=own-last-event", f: func(b *hg.EventBody, cx *admitCtx) bool {
			h, ok := cx.lastOf[hexOf(b.Creator)]
			if !ok || h == b.Parents[1] {
				return false
			}
			b.Parents[1] = h
			return true
		}},
		admitOp{name: "creator=another-validator", f: func(b *hg.EventBody, cx *admitCtx) bool {
			b.Creator = sim.PubOf((cx.creatorIdx + 1) % 3)
			return true
		}},
		admitOp{name: "creator=non-member-key", f: func(b *hg.EventBody, cx *admitCtx) bool { b.Creator = sim.PubOf(9); return true }},
		admitOp{name: "creator=garbage-bytes", f: func(b *hg.EventBody, cx *admitCtx) bool { b.Creator = []byte{4, 1, 2, 3, 4}; return true }},
		admitOp{name: "creator=empty", f: func(b *hg.EventBody, cx *admitCtx) bool { b.Creator = []byte{}; return true }},
		admitOp{name: "itx=join-signed-by-its-peer", f: func(b *hg.EventBody, cx *admitCtx) bool {
			b.InternalTransactions = append(append([]hg.InternalTransaction{}, b.InternalTransactions...), sim.JoinTx(8))
			return true
		}},
		admitOp{name: "itx=join-signed-by-someone-else", f: func(b *hg.EventBody, cx *admitCtx) bool {
			itx := sim.JoinTx(8)
			other := sim.JoinTx(7)
			itx.Signature = other.Signature
			b.InternalTransactions = append(append([]hg.InternalTransaction{}, b.InternalTransactions...), itx)
			return true
		}},
		admitOp{name: "itx=unsigned", f: func(b *hg.EventBody, cx *admitCtx) bool {
			itx := sim.JoinTx(8)
			itx.Signature = ""
			b.InternalTransactions = append(append([]hg.InternalTransaction{}, b.InternalTransactions...), itx)
			return true
		}},
		admitOp{name: "timestamp+1000", f: func(b *hg.EventBody, cx *admitCtx) bool { b.Timestamp += 1000; return true }},
		admitOp{name: "payload+1tx", f: func(b *hg.EventBody, cx *admitCtx) bool {
			b.Transactions = append(append([][]byte{}, b.Transactions...), []byte("forged"))
			return true
		}},
		admitOp{name: "signature=by-another-key", sig: "other-key"},
		admitOp{name: "signature=malformed", sig: "malformed"},
		admitOp{name: "signature=empty", sig: "empty"},
	)
	return ops
}

func copyBodyEv(b hg.EventBody) hg.EventBody {
	c := b
	c.Parents = append([]string{}, b.Parents...)
	c.Creator = append([]byte{}, b.Creator...)
	return c
}

// admissible is the harness's own admission predicate.
func admissible(e *hg.Event, cx *admitCtx, repertoire map[string]bool) (bool, string) {
	body := e.Body
	creator := hexOf(body.Creator)
	if !mon.VerifySig(creator, mon.JSONDigest(&body), e.Signature) {
		return false, "signature does not verify under the stated creator"
	}
	if !repertoire[creator] {
		return false, "creator is not a known participant"
	}
	if len(body.Parents) != 2 {
		return false, "malformed parents"
	}
	last, has := cx.lastOf[creator]
	if has && body.Parents[0] != last || !has && body.Parents[0] != "" {
		return false, "self-parent is not the creator's latest event"
	}
	if body.Parents[1] != "" && cx.byHash[body.Parents[1]] == nil {
		return false, "other-parent unknown"
	}
	want := 0
	if has {
		want = cx.byHash[last].Index() + 1
	}
	if body.Index != want {
		return false, fmt.Sprintf("index %d, self-parent index + 1 is %d", body.Index, want)
	}
	for _, itx := range body.InternalTransactions {
		if !mon.VerifySig(itx.Body.Peer.PubKeyString(), mon.JSONDigest(&itx.Body), itx.Signature) {
			return false, "internal transaction not signed by the peer it concerns"
		}
	}
	return true, ""
}

func structural(in *dag.Inst, cx *admitCtx) string {
	store := in.N.Store
	heights := map[string]string{}
	for _, h := range cx.order {
		e := cx.byHash[h]
		k := fmt.Sprintf("%s/%d", e.Creator(), e.Index())
		if o, dup := heights[k]; dup && o != h {
			return fmt.Sprintf("two events of one creator at height %d (%s, %s)", e.Index(), o[:10], h[:10])
		}
		heights[k] = h
	}
	for _, p := range store.RepertoireByPubKey() {
		l, err := store.ParticipantEvents(p.PubKeyString(), -1)
		if err != nil {
			continue
		}
		for k, hx := range l {
			e, err := store.GetEvent(hx)
			if err != nil {
				return fmt.Sprintf("participant listing entry %d (%s) not readable", k, hx[:10])
			}
			if e.Index() != k {
				return fmt.Sprintf("per-creator indexes not gap-free: listing position %d holds an event with index %d", k, e.Index())
			}
			if pe, err := store.ParticipantEvent(p.PubKeyString(), k); err != nil || pe != hx {
				return fmt.Sprintf("ParticipantEvent(%d) = %q, listing has %s", k, pe, hx[:10])
			}
		}
		cnt := 0
		for _, h := range cx.order {
			if cx.byHash[h].Creator() == p.PubKeyString() {
				cnt++
			}
		}
		if cnt != len(l) {
			return fmt.Sprintf("creator has %d accepted events but its listing has %d entries", cnt, len(l))
		}
	}
	return ""
}

func init() {
	explore.Register("admit", func(spec json.RawMessage) (json.RawMessage, error) {
		var it AdmitItem
		if err := json.Unmarshal(spec, &it); err != nil {
			return nil, err
		}
		res := &AdmitResult{Verdicts: map[string]int{}, PanicOps: map[string]int{}}
		sc := sched.ScenarioByName(it.Base)
		x := sched.NewExec(sc, nil)
		x.NoDigest = true
		for _, a := range sc.Seed {
			x.Step(a)
		}
		evs := dag.Harvest(x.C)
		n := sc.Cfg.N
		x.Close()
		ops := admitOps()
		seenViol := map[string]bool{}
		addViol := func(key, what string, rp map[string]interface{}) {
			if seenViol[key] {
				return
			}
			seenViol[key] = true
			res.Viol = append(res.Viol, ev.Violation{Property: "C07", Key: key, What: what, Replay: rp})
		}
		verdictSet := map[string]bool{}
		if it.To > len(evs) {
			it.To = len(evs)
		}
		// reset mode: anchor block + frame from a full instance, and the base events that can be inserted on top
		var rblock *hg.Block
		var rframe *hg.Frame
		var post []int
		resetInst := func() *dag.Inst {
			in := dag.Open(n, false, "", cacheOf(it))
			var b hg.Block
			var f hg.Frame
			jsonRoundTrip(rblock, &b)
			jsonRoundTrip(rframe, &f)
			if err := in.H.Reset(&b, &f); err != nil {
				ev.Fail("admit: Reset failed: %v", err)
			}
			return in
		}
		if it.Reset > 0 {
			full := dag.Open(n, false, "", cacheOf(it))
			for i := range evs {
				if err, _ := full.Insert(evs[i].Fresh()); err != nil {
					ev.Fail("admit: base insertion failed: %v", err)
				}
			}
			blk, err := full.N.Store.GetBlock(it.Reset - 1)
			if err != nil {
				full.Close()
				return json.Marshal(res) // the base has no such block
			}
			fr, err := full.H.GetFrame(blk.RoundReceived())
			if err != nil {
				ev.Fail("admit: GetFrame: %v", err)
			}
			rblock, rframe = blk, fr
			full.Close()
			probe := resetInst()
			for i := range evs {
				if _, err := probe.N.Store.GetEvent(evs[i].Hex); err == nil {
					continue
				}
				if err, _ := probe.Insert(evs[i].Fresh()); err == nil {
					post = append(post, i)
				}
			}
			probe.Close()
			if it.To > len(post) {
				it.To = len(post)
			}
		}
		for L := it.From; L < it.To; L++ {
			res.States++
			var inst *dag.Inst
			var cx *admitCtx
			build := func() {
				if inst != nil {
					inst.Close()
				}
				cx = &admitCtx{lastOf: map[string]string{}, byHash: map[string]*hg.Event{}}
				if it.Reset > 0 {
					inst = resetInst()
					for i := range evs {
						if se, err := inst.N.Store.GetEvent(evs[i].Hex); err == nil {
							cx.byHash[evs[i].Hex] = se
							cx.lastOf[se.Creator()] = evs[i].Hex
							cx.order = append(cx.order, evs[i].Hex)
						}
					}
					for _, i := range post[:L] {
						e := evs[i].Fresh()
						if err, _ := inst.Insert(e); err != nil {
							ev.Fail("admit: insertion on top of the reset failed: %v", err)
						}
						cx.byHash[evs[i].Hex] = e
						cx.lastOf[e.Creator()] = evs[i].Hex
						cx.order = append(cx.order, evs[i].Hex)
					}
					return
				}
				inst = dag.Open(n, false, "", cacheOf(it))
				for i := 0; i < L; i++ {
					e := evs[i].Fresh()
					if err, _ := inst.Insert(e); err != nil {
						ev.Fail("admit: base prefix insertion failed: %v", err)
					}
					cx.byHash[evs[i].Hex] = e
					cx.lastOf[e.Creator()] = evs[i].Hex
					cx.order = append(cx.order, evs[i].Hex)
				}
			}
			build()
			rep := map[string]bool{}
			for k := range inst.N.Store.RepertoireByPubKey() {
				rep[k] = true
			}
			// candidates: insertable next events + the last known events
			var cands []dag.Ev
			start := L
			if it.Reset > 0 {
				start = 0
			}
			for i := start; i < len(evs); i++ {
				e := evs[i]
				if cx.byHash[e.Hex] != nil {
					continue
				}
				okp := (e.Self == "" || cx.byHash[e.Self] != nil) && (e.Other == "" || cx.byHash[e.Other] != nil)
				if okp && cx.lastOf[hexOf(e.Body.Creator)] == e.Self {
					cands = append(cands, e)
				}
				if len(cands) >= 3 {
					break
				}
			}
			if it.Reset > 0 {
				for k := len(cx.order) - 1; k >= 0 && k >= len(cx.order)-2; k-- {
					for i := range evs {
						if evs[i].Hex == cx.order[k] {
							cands = append(cands, evs[i])
						}
					}
				}
			} else {
				for i := L - 1; i >= 0 && i >= L-2; i-- {
					cands = append(cands, evs[i])
				}
			}
			var attemptMode func(t *hg.Event, label string, cand dag.Ev, wire bool)
			attempt := func(t *hg.Event, label string, cand dag.Ev) {
				// a full event as a node inserts its own events (wire information computed by the
				// hashgraph) and as core.sync inserts received ones (wire information taken as set)
				t2 := &hg.Event{Body: copyBodyEv(t.Body), Signature: t.Signature}
				attemptMode(t, label, cand, true)
				attemptMode(t2, label+" {inserted as core.sync does}", cand, false)
			}
			attemptMode = func(t *hg.Event, label string, cand dag.Ev, wire bool) {
				res.Attempts++
				before := inst.StateDigest()
				okAdm, why := admissible(t, cx, rep)
				var err error
				var pan string
				if wire {
					err, pan = inst.Insert(t)
				} else {
					err, pan = inst.InsertNoWire(t)
				}
				rp := map[string]interface{}{"base": it.Base, "prefix": L, "candidate": fmt.Sprintf("%c%d", 'a'+cand.CreatorIdx, cand.Body.Index), "operators": label}
				if pan != "" {
					res.Panics++
					res.PanicOps[label]++
					build()
					return
				}
				if err == nil {
					res.Accepted++
					res.Verdicts[label]++
					verdictSet[label+"/acc"] = true
					if !okAdm {
						addViol("accepted-inadmissible:"+label, fmt.Sprintf("%s prefix %d: event (%s of %c%d) was accepted although %s", it.Base, L, label, 'a'+cand.CreatorIdx, cand.Body.Index, why), rp)
					}
					cx.byHash[t.Hex()] = t
					cx.lastOf[t.Creator()] = t.Hex()
					cx.order = append(cx.order, t.Hex())
					if s := structural(inst, cx); s != "" && it.Reset == 0 {
						addViol("structure-broken:"+label, fmt.Sprintf("%s prefix %d: after accepting (%s of %c%d): %s", it.Base, L, label, 'a'+cand.CreatorIdx, cand.Body.Index, s), rp)
					}
					build()
					return
				}
				res.Rejected++
				verdictSet[label+"/rej"] = true
				if after := inst.StateDigest(); after != before {
					addViol("rejected-but-state-changed:"+label, fmt.Sprintf("%s prefix %d: (%s of %c%d) was rejected (%v) but the DAG / known map / consensus state changed", it.Base, L, label, 'a'+cand.CreatorIdx, cand.Body.Index, err), rp)
					build()
				}
			}
			mk := func(cand dag.Ev, sel []admitOp, resign bool) (*hg.Event, string, bool) {
				b := copyBodyEv(cand.Body)
				cx.cand = cand
				cx.creatorIdx = cand.CreatorIdx
				names := []string{}
				sigop := ""
				for _, o := range sel {
					if o.f != nil {
						if !o.f(&b, cx) {
							return nil, "", false
						}
					}
					if o.sig != "" {
						sigop = o.sig
					}
					names = append(names, o.name)
				}
				t := &hg.Event{Body: b, Signature: cand.Sig}
				label := strings.Join(names, " + ")
				if resign {
					k := -1
					for i := 0; i < 12; i++ {
						if hexOf(b.Creator) == sim.PubHex(i) {
							k = i
						}
					}
					if k < 0 {
						return nil, "", false
					}
					if err := t.Sign(sim.Key(k)); err != nil {
						return nil, "", false
					}
					label += " [re-signed by the stated creator]"
				} else {
					label += " [signature left as is]"
				}
				switch sigop {
				case "other-key":
					t.Sign(sim.Key(9))
				case "malformed":
					t.Signature = "abc"
				case "empty":
					t.Signature = ""
				}
				if len(names) == 0 {
					label = "unmodified"
				}
				return t, label, true
			}
			for _, cand := range cands {
				// the unmodified candidate first
				if t, label, ok := mk(cand, nil, false); ok {
					attempt(t, label, cand)
				}
				for i, o := range ops {
					for _, rs := range []bool{false, true} {
						if o.sig != "" && rs {
							continue
						}
						if t, label, ok := mk(cand, []admitOp{o}, rs); ok {
							attempt(t, label, cand)
						}
					}
					if it.Pairs {
						for _, o2 := range ops[i+1:] {
							if t, label, ok := mk(cand, []admitOp{o, o2}, true); ok {
								attempt(t, label, cand)
							}
						}
					}
				}
				// wire form (what core.sync receives): unknown ids and references that do not exist
				if se, err := inst.N.Store.GetEvent(cand.Hex); err == nil || true {
					var w hg.WireEvent
					if se != nil {
						w = se.ToWire()
					} else {
						f := cand.Fresh()
						if err := inst.H.SetWireInfo(f); err != nil {
							continue
						}
						w = f.ToWire()
					}
					type wop struct {
						name string
						f    func(w *hg.WireEvent)
					}
					for _, wo := range []wop{
						{"wire:creator-id=unknown", func(w *hg.WireEvent) { w.Body.CreatorID = 12345 }},
						{"wire:other-parent-creator-id=unknown", func(w *hg.WireEvent) { w.Body.OtherParentCreatorID = 12345; w.Body.OtherParentIndex = 0 }},
						{"wire:self-parent-index=99", func(w *hg.WireEvent) { w.Body.SelfParentIndex = 99 }},
						{"wire:self-parent-index=-7", func(w *hg.WireEvent) { w.Body.SelfParentIndex = -7 }},
						{"wire:other-parent-index=99", func(w *hg.WireEvent) { w.Body.OtherParentIndex = 99 }},
						{"wire:index+1", func(w *hg.WireEvent) { w.Body.Index++ }},
						{"wire:index=0", func(w *hg.WireEvent) { w.Body.Index = 0 }},
						{"wire:self-parent-index-1", func(w *hg.WireEvent) { w.Body.SelfParentIndex-- }},
					} {
						wc := w
						wo.f(&wc)
						res.Attempts++
						before := inst.StateDigest()
						var t *hg.Event
						var rerr error
						func() {
							defer func() {
								if r := recover(); r != nil {
									rerr = fmt.Errorf("panic: %v", r)
									res.Panics++
									res.PanicOps[wo.name]++
								}
							}()
							t, rerr = inst.H.ReadWireInfo(wc)
						}()
						if rerr != nil {
							res.Rejected++
							verdictSet[wo.name+"/rej"] = true
							if inst.StateDigest() != before {
								addViol("rejected-but-state-changed:"+wo.name, fmt.Sprintf("%s prefix %d: wire event (%s) refused by ReadWireInfo but state changed", it.Base, L, wo.name), map[string]interface{}{"base": it.Base, "prefix": L, "operators": wo.name})
							}
							continue
						}
						res.Attempts--
						attempt(t, wo.name, cand)
					}
				}
			}
			// premature events: a genuine later event of the base whose parents are not all known yet is offered now
			// (rejected: a parent is missing); when the continuation below reaches it - its parents are known by then -
			// the same body is offered first with a signature that is not its creator's (another validator's key; the
			// creator's signature of another event), which must be rejected whatever the earlier attempt left behind
			premature := map[int]bool{}
			if it.Reset == 0 {
				for i := L; i < len(evs) && len(premature) < 4; i++ {
					e := evs[i]
					if cx.byHash[e.Hex] != nil {
						continue
					}
					if (e.Self == "" || cx.byHash[e.Self] != nil) && (e.Other == "" || cx.byHash[e.Other] != nil) {
						continue
					}
					premature[i] = true
					res.Premature++
					attempt(e.Fresh(), "premature: a genuine later event offered before its parents are known", e)
				}
			}
			// twin: the instance that saw all (rejected) attempts and a fresh one continue identically
			var twin *dag.Inst
			okc := true
			cont := []int{}
			if it.Reset > 0 {
				twin = resetInst()
				for _, i := range post[:L] {
					if err, _ := twin.Insert(evs[i].Fresh()); err != nil {
						okc = false
					}
				}
				cont = post[L:]
			} else {
				twin = dag.Open(n, false, "", cacheOf(it))
				for i := 0; i < L; i++ {
					if err, _ := twin.Insert(evs[i].Fresh()); err != nil {
						okc = false
					}
				}
				for i := L; i < len(evs); i++ {
					cont = append(cont, i)
				}
			}
			for _, i := range cont {
				if !okc {
					break
				}
				if premature[i] {
					e := evs[i]
					nacc := res.Accepted
					t1 := &hg.Event{Body: copyBodyEv(e.Body)}
					t1.Sign(sim.Key((e.CreatorIdx + 1) % n))
					attempt(t1, "premature-then-forged: the same body, now insertable, signed with another validator's key", e)
					if sp := cx.byHash[e.Self]; sp != nil && res.Accepted == nacc {
						t2 := &hg.Event{Body: copyBodyEv(e.Body), Signature: sp.Signature}
						attempt(t2, "premature-then-forged: the same body, now insertable, with the creator's signature of its previous event", e)
					}
					if res.Accepted != nacc {
						okc = false // reported above; the instance was rebuilt
						break
					}
				}
				f1 := evs[i].Fresh()
				e1, _ := inst.Insert(f1)
				e2, _ := twin.Insert(evs[i].Fresh())
				if e1 == nil {
					cx.byHash[evs[i].Hex] = f1
					cx.lastOf[f1.Creator()] = evs[i].Hex
					cx.order = append(cx.order, evs[i].Hex)
				}
				if (e1 == nil) != (e2 == nil) {
					addViol("twin-diverges", fmt.Sprintf("%s prefix %d: after the rejected attempts the valid continuation event %d is accepted=%v, on a twin that never saw them accepted=%v", it.Base, L, i, e1 == nil, e2 == nil), map[string]interface{}{"base": it.Base, "prefix": L})
					okc = false
				}
			}
			if okc {
				res.Twins++
				if d := dag.Compare(twin.Outcome(evs), inst.Outcome(evs), true); d != "" {
					addViol("twin-diverges", fmt.Sprintf("%s prefix %d: consensus results after the valid continuation differ from a twin that never saw the rejected attempts: %s", it.Base, L, d), map[string]interface{}{"base": it.Base, "prefix": L})
				}
			}
			twin.Close()
			inst.Close()
		}
		res.Distinct = len(verdictSet)
		ks := []string{}
		for k := range verdictSet {
			ks = append(ks, k)
		}
		sort.Strings(ks)
		if len(ks) > 12 {
			ks = ks[:12]
		}
		res.Samples = ks
		return json.Marshal(res)
	})

	checks["C07"] = func(args []string) int {
		th := ev.Tier() == "thorough"
		rep := ev.NewReport("C07", "exploration")
		bases := []string{"static:3:24", "static:4:20", "join:3:5:40"}
		chunk := 3
		var items []AdmitItem
		for _, b := range bases {
			for from := 0; from < 70; from += chunk {
				items = append(items, AdmitItem{Base: b, From: from, To: from + chunk, Pairs: true})
			}
		}
		// a hashgraph that was Reset to block 1 / 2 of the static n=3 history (fast-sync), 0..24 further events on top
		for _, blk := range []int{1, 2} {
			for from := 0; from < 24; from += chunk {
				items = append(items, AdmitItem{Base: "static:3:45", From: from, To: from + chunk, Pairs: true, Reset: blk + 1})
			}
		}
		raw := make([]json.RawMessage, len(items))
		for i, it := range items {
			raw[i], _ = json.Marshal(it)
		}
		bud := budget(map[bool]time.Duration{false: 170 * time.Second, true: 40 * time.Minute}[th])
		pool := explore.Pool{Mode: "admit", Deadline: time.Now().Add(bud)}
		tot := &AdmitResult{Verdicts: map[string]int{}, PanicOps: map[string]int{}}
		var crashes []string
		distinct := map[string]bool{}
		handed := pool.Run(raw, func(r explore.PoolResult) {
			if r.Crashed != "" || r.Err != "" {
				crashes = append(crashes, string(raw[r.Index])+": "+r.Crashed+r.Err)
				return
			}
			var res AdmitResult
			json.Unmarshal(r.Res, &res)
			attachItem(res.Viol, "admit", raw[r.Index])
			tot.States += res.States
			tot.Attempts += res.Attempts
			tot.Accepted += res.Accepted
			tot.Rejected += res.Rejected
			tot.Panics += res.Panics
			tot.Twins += res.Twins
			tot.Premature += res.Premature
			for k, v := range res.Verdicts {
				tot.Verdicts[k] += v
			}
			for k, v := range res.PanicOps {
				tot.PanicOps[k] += v
			}
			for _, s := range res.Samples {
				distinct[s] = true
			}
			tot.Viol = append(tot.Viol, res.Viol...)
		})
		if len(crashes) > 0 {
			for _, c := range crashes {
				fmt.Fprintln(os.Stderr, "worker problem:", c)
			}
			ev.Fail("%d work items failed in the harness", len(crashes))
		}
		rep.Violations = tot.Viol
		samples := []interface{}{}
		for k := range distinct {
			samples = append(samples, k)
			if len(samples) >= 10 {
				break
			}
		}
		cov := rep.Coverage
		cov["evaluations"] = tot.Attempts
		cov["distinct_nontrivial"] = len(tot.Verdicts) + len(tot.PanicOps) + tot.States
		cov["states_attempted_in"] = tot.States
		cov["accepted"] = tot.Accepted
		cov["rejected"] = tot.Rejected
		cov["rejected_by_panic_handed_to_C08"] = tot.Panics
		cov["panic_operators"] = tot.PanicOps
		cov["twin_continuations_compared"] = tot.Twins
		cov["premature_then_forged_sequences"] = tot.Premature
		cov["accepted_by_operator"] = tot.Verdicts
		cov["exhaustive"] = handed == len(items)
		cov["samples"] = samples
		cov["rule"] = "states = every prefix of three base DAGs (static n=3 with blocks, static n=4, join 3->4 with a validator-set change) built in a real hashgraph, plus a hashgraph Reset (fast-sync) to block 1 / block 2 of a static n=3 history with 0..23 further events on top; every attempt is made in both insertion modes (wire information computed by the hashgraph as for a node's own events; taken as already set, as core.sync inserts received events); in each state the insertable next events and the last known events are submitted unmodified and under every operator of the catalogue (index, self-parent, other-parent, creator, signature, internal transactions, timestamp, payload; thorough: all pairs), each re-signed by the stated creator's key (a Byzantine validator) and with the signature left as is, plus wire-form attempts with unknown ids / dangling references. Oracle: accepted => the harness's own admission predicate holds and the structural invariants (gap-free per-creator indexes, no two events at one height) hold; rejected => a digest of participant listings, known map, last events, undetermined queue, rounds, fame, blocks is unchanged; after all attempts of a state the valid continuation gives identical consensus results on a twin that never saw them. distinct_nontrivial = distinct operator verdict classes + states"
		rep.Assumptions = []string{"completeness (valid events must be accepted) is not asserted", "a rejection by panic is counted here and is C08's subject"}
		if tot.Accepted == 0 || tot.Rejected == 0 {
			rep.Finish()
			ev.Fail("vacuity guard: accepted=%d rejected=%d", tot.Accepted, tot.Rejected)
		}
		return rep.Finish()
	}
}

func cacheOf(it AdmitItem) int {
	if it.Cache > 0 {
		return it.Cache
	}
	return 10000
}
