package main

import (
	"strings"
	"time"

	"verif/harness/ev"
	"verif/harness/mon"
	"verif/harness/sched"
)

func init() {
	// "badgernode:<node>:<cache>:<base…>": the base scenario with <node> on a BadgerStore with a small cache
	// (everything it reports for old blocks comes from the database)
	sched.RegisterScenario("badgernode", func(p []string) *sched.Scenario {
		node, cache := atoi(p[1]), atoi(p[2])
		sc := sched.ScenarioByName(strings.Join(p[3:], ":"))
		sc.Cfg.Badger = map[int]bool{node: true}
		sc.Cfg.CacheOf = map[int]int{node: cache}
		sc.Cfg.Dir = scratchDir()
		return sc
	})
	// "cacheall:<cache>:<base…>": the base scenario with every node's cache size set to <cache> (in-memory stores)
	sched.RegisterScenario("cacheall", func(p []string) *sched.Scenario {
		sc := sched.ScenarioByName(strings.Join(p[2:], ":"))
		sc.Cfg.CacheSize = atoi(p[1])
		return sc
	})
	monitorCtors["C04"] = func(st *mon.Stats) mon.Monitor { return mon.NewOrder() }
	monitorCtors["C05"] = func(st *mon.Stats) mon.Monitor { return mon.NewIntegrity() }
	monitorCtors["C10"] = func(st *mon.Stats) mon.Monitor { return mon.NewValSets() }

	std := func(prop string, mons []string, rule string, floor int) {
		pre := func(th bool) func(time.Time) ([]ev.Violation, map[string]interface{}) { return nil }
		if prop == "C10" {
			pre = refDynPre
		}
		checks[prop] = func(args []string) int {
			th := ev.Tier() == "thorough"
			b := 170 * time.Second
			if th {
				b = 40 * time.Minute
			}
			return runCluster(ClusterCheck{
				Prop: prop, Level: "model_checking", Budget: budget(b),
				Phases: standardPhases(mons, 40, th),
				Floor:  floor,
				Rule:   rule,
				Pre:    pre(th),
			})
		}
	}
	const common = "executions = all action sequences up to the stated depth (S1, state matching) and all schedules within the stated number of deviations from fair seeds followed by a fair suffix (S3); distinct_nontrivial = distinct final cluster states of executions in which a block index was delivered by two nodes holding different event sets at that moment. Oracle after every step: "
	std("C02", []string{"C01", "C02"}, common+"per node the commit callbacks have consecutive indexes (from 0, or anchor+1), strictly increasing round-received; Node.GetBlock(i) for every delivered i equals the delivered body + state hash + receipts; signatures only grow", 50)
	std("C04", []string{"C01", "C04"}, common+"for every processed round the frame's event list is compared with the harness's own record of every event's parents and payload: each parent is committed strictly earlier, no event twice, block transactions = concatenation of the events' payloads in frame order, frame = exactly the events whose private round-received is that round", 50)
	std("C10", []string{"C01", "C10sig", "C10"}, common+"GetAllValidatorSets()/GetValidatorSet(r) of every node equal a reference replay (genesis set, accepted receipts of its delivered blocks applied in order, effective at round-received+6); entries never change; nodes agree; each block's peers hash is the hash of the set at its round-received; every witness's creator is in its round's set; every block signature a node has recorded is by a member of the set of the block's round-received. Before the phases (the clause about what is counted in a quorum): 64 (thorough 360) DAGs with joins and leaves are inserted event by event and every fame decision is re-derived by the harness's own vote count – strongly-seen witnesses of round j-1 over the set of round j-1, the decision threshold over the set of round j – when first reported and again on the final state", 50)
}
