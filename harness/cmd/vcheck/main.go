// vcheck is the single harness binary: `vcheck <ID> [--tier t] [--replay f]`
// runs the check of one property; `vcheck --worker <mode>` is a worker
// subprocess of the exploration pool.
package main

import (
	"fmt"
	"os"

	"verif/harness/explore"
)

type checkFn func(args []string) int

var checks = map[string]checkFn{}

func main() {
	if len(os.Args) >= 3 && os.Args[1] == "--worker" {
		explore.WorkerMain(os.Args[2])
		return
	}
	if len(os.Args) < 2 {
		fmt.Fprintln(os.Stderr, "usage: vcheck <ID> [--tier quick|thorough] [--replay file]")
		os.Exit(2)
	}
	fn, ok := checks[os.Args[1]]
	if !ok {
		fmt.Fprintf(os.Stderr, "unknown check %q\n", os.Args[1])
		os.Exit(2)
	}
	for i, a := range os.Args {
		if a == "--replay" && i+1 < len(os.Args) {
			os.Exit(replayFile(os.Args[1], os.Args[i+1]))
		}
	}
	os.Exit(fn(os.Args[2:]))
}
