package main

import (
	"fmt"
	stdnet "net"
	"os"
	"strings"
	"time"

	hg "github.com/mosaicnetworks/babble/src/hashgraph"
	"github.com/mosaicnetworks/babble/src/proxy"
	aproxy "github.com/mosaicnetworks/babble/src/proxy/socket/app"
	bproxy "github.com/mosaicnetworks/babble/src/proxy/socket/babble"
	"verif/harness/sched"
	"verif/harness/sim"
)

// downProxy is node 0's application proxy in the "sockapp" scenarios: the real socket proxy pair (babble side →
// forwarder → application side serving the harness application), with the application side unreachable during the
// commit calls selected by the pattern: over {u,d}, 'd' at position k: the established connection is cut and every
// dial is refused during the k-th commit call, the application is up again right after it; "late<k>": the
// application side is not reachable from the moment the node is created (its start-up notification fails as well)
// until the k-th commit call has returned.
type downProxy struct {
	proxy.AppProxy
	fw      *shim
	pattern string
	k       int
}

func (d *downProxy) CommitBlock(b hg.Block) (proxy.CommitResponse, error) {
	k := d.k
	d.k++
	if strings.HasPrefix(d.pattern, "late") {
		if k+1 == atoi(d.pattern[4:]) {
			defer func() {
				if err := d.fw.up(); err != nil {
					panic(fmt.Sprintf("harness: cannot open the forwarder: %v", err))
				}
			}()
		}
	} else if k < len(d.pattern) && d.pattern[k] == 'd' {
		d.fw.down()
		defer func() {
			if err := d.fw.up(); err != nil {
				panic(fmt.Sprintf("harness: cannot re-open the forwarder: %v", err))
			}
		}()
	}
	r, err := d.AppProxy.CommitBlock(b)
	if os.Getenv("DBGSOCK") != "" {
		fmt.Fprintf(os.Stderr, "commit call %d (block %d): err=%v state hash %x\n", k, b.Index(), err, r.StateHash)
	}
	return r, err
}

// freeAddrs reserves k local addresses (listen on port 0, note the port, release).
func freeAddrs(k int) []string {
	var out []string
	var ls []stdnet.Listener
	for i := 0; i < k; i++ {
		l, err := stdnet.Listen("tcp", "127.0.0.1:0")
		if err != nil {
			panic(fmt.Sprintf("harness: no local port: %v", err))
		}
		ls = append(ls, l)
		out = append(out, l.Addr().String())
	}
	for _, l := range ls {
		l.Close()
	}
	return out
}

// socketAttach builds the socket proxy pair for one node; it retries with other ports when one was taken meanwhile.
func socketAttach(app *sim.App, pattern string) proxy.AppProxy {
	var lastErr error
	for try := 0; try < 20; try++ {
		a := freeAddrs(3) // a[0] application-side server, a[1] babble-side server, a[2] forwarder → a[0]
		log := discardLogger()
		timeout := 10 * time.Second
		if _, err := bproxy.NewSocketBabbleProxy(a[1], a[0], app, timeout, log); err != nil {
			lastErr = err
			continue
		}
		fw, err := newShim(a[2], a[0])
		if err != nil {
			lastErr = err
			continue
		}
		if strings.HasPrefix(pattern, "late") {
			fw.down()
		}
		babbleSide, err := aproxy.NewSocketAppProxy(a[2], a[1], timeout, log)
		if err != nil {
			lastErr = err
			fw.down()
			continue
		}
		return &downProxy{AppProxy: babbleSide, fw: fw, pattern: pattern}
	}
	panic(fmt.Sprintf("harness: cannot set up the socket proxies: %v", lastErr))
}

func init() {
	// "sockapp:<pattern>:<base…>": the base scenario with node 0's application attached through the socket proxy;
	// pattern over {u,d}: the application side is down during the commit calls marked d
	sched.RegisterScenario("sockapp", func(p []string) *sched.Scenario {
		pattern := p[1]
		sc := sched.ScenarioByName(strings.Join(p[2:], ":"))
		sc.Cfg.WrapProxy = func(i int, app *sim.App, inm proxy.AppProxy) proxy.AppProxy {
			if i != 0 {
				return inm
			}
			return socketAttach(app, pattern)
		}
		return sc
	})
}
