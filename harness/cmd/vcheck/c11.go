package main

import (
	"crypto/sha256"
	"encoding/hex"
	"encoding/json"
	"fmt"
	"github.com/mosaicnetworks/babble/src/node/state"
	"os"
	"os/exec"
	"path/filepath"
	"sort"
	"strconv"
	"strings"
	"time"

	hg "github.com/mosaicnetworks/babble/src/hashgraph"
	"verif/harness/ev"
	"verif/harness/explore"
	"verif/harness/mon"
	"verif/harness/sched"
	"verif/harness/sim"
)

// CrashItem: node 0 of scenario Base runs on Badger and crashes before its
// P-th durable store write (P=0: clean shutdown after the seed).
type CrashItem struct {
	Base  string      `json:"base"`
	From  int         `json:"from"`
	To    int         `json:"to"`
	Devs  []sched.Dev `json:"devs,omitempty"`
	Kill  bool        `json:"kill,omitempty"`  // validate the crash model with real SIGKILLs in child processes
	Clean bool        `json:"clean,omitempty"` // clean close + reopen after the seed
	// FastSync: the node is restarted with bootstrap *and* fast-sync enabled: after Init it is CatchingUp and
	// runs Node.fastForward once. 1: against its peers as they are; 2: nobody answers (peers not reachable yet).
	// When no anchor is adopted the node goes on Babbling from its own database and everything below applies.
	FastSync int `json:"fs,omitempty"`
}

type CrashResult struct {
	Points    int            `json:"points"`
	Steps     int            `json:"steps"`
	Viol      []ev.Violation `json:"viol,omitempty"`
	Ctr       map[string]int `json:"ctr"`
	Digests   []string       `json:"dg,omitempty"`
	Sample    []string       `json:"sample,omitempty"`
	MaxWrites int            `json:"maxw"`
}

func crashScenario(base string, at int, kill bool, dir string) (*sched.Scenario, **sim.CrashStore) {
	sc := sched.ScenarioByName(base)
	sc.Cfg.Badger = map[int]bool{0: true}
	sc.Cfg.Dir = dir
	var cs *sim.CrashStore
	sc.Cfg.WrapStore = func(idx int, s hg.Store) hg.Store {
		if idx != 0 {
			return s
		}
		cs = &sim.CrashStore{Store: s, Node: 0, At: at, Kill: kill, Written: map[string]bool{}}
		cs.Arm() // cut points are Badger transactions (node 0 is the only database user of the process)
		return cs
	}
	return sc, &cs
}

// recoveredDigest: what a bootstrapped node 0 looks like.
func recoveredDigest(c *sim.Cluster) (string, map[string]interface{}) {
	n := c.Nodes[0]
	known := n.Store.KnownEvents()
	ids := []int{}
	for id := range known {
		ids = append(ids, int(id))
	}
	sort.Ints(ids)
	s := ""
	for _, id := range ids {
		s += fmt.Sprintf("%d=%d,", id, known[uint32(id)])
	}
	for _, cr := range n.App.Commits {
		raw, _ := json.Marshal(cr.Body)
		d := sha256.Sum256(raw)
		s += fmt.Sprintf("|b%d:%x:%x", cr.Body.Index, d[:6], cr.StateHash)
	}
	cs := n.Node.VCoreState()
	s += fmt.Sprintf("|head=%s seq=%d", cs.Head, cs.Seq)
	h := sha256.Sum256([]byte(s))
	return hex.EncodeToString(h[:8]), map[string]interface{}{"known": fmt.Sprint(known), "blocks": len(n.App.Commits), "seq": cs.Seq}
}

func runCrashPoint(it CrashItem, p int, res *CrashResult, dir string) {
	os.RemoveAll(dir)
	os.MkdirAll(dir, 0o755)
	sc, csp := crashScenario(it.Base, p, false, dir)
	st := &mon.Stats{}
	mons := sched.MonitorFactory([]string{"C01", "C02"}, st)
	x := sched.NewExec(sc, mons)
	defer x.Close()
	x.NoDigest = true
	viol := func(key, what string) {
		res.Viol = append(res.Viol, ev.Violation{Property: "C11", Key: key, What: fmt.Sprintf("%s crash before write %d: %s", it.Base, p, what),
			Replay: map[string]interface{}{"base": it.Base, "crash_before_write": p, "devs": it.Devs, "trace": x.C.Trace}})
	}
	devAt := map[int][]sched.Dev{}
	for _, d := range it.Devs {
		devAt[d.Pos] = append(devAt[d.Pos], d)
	}
	crashed := x.C.Nodes[0].Down
	for pos, a := range sc.Seed {
		if crashed {
			break
		}
		replaced := false
		for _, d := range devAt[pos] {
			x.Step(d.Alt)
			if !d.Ins {
				replaced = true
			}
		}
		if !replaced {
			x.Step(a)
		}
		if x.C.Nodes[0].Down {
			crashed = true
			break
		}
		if x.Dead() {
			return
		}
	}
	sim.Disarm() // from here on nothing is cut any more
	cs := *csp
	if cs.Writes > res.MaxWrites {
		res.MaxWrites = cs.Writes
	}
	if !crashed {
		if p > 0 {
			res.Ctr["points_beyond_history"]++
			return
		}
		res.Ctr["clean_shutdowns"]++
	} else {
		res.Ctr["crashes"]++
	}
	res.Points++
	old := x.C.Nodes[0]
	oldCommits := append([]sim.CommitRec{}, old.App.Commits...)
	written := map[string]bool{}
	for k := range cs.Written {
		written[k] = true
	}
	lastSelf, lastSelfIdx := "", -1
	for _, hx := range cs.Order {
		if cs.Creator[hx] == sim.PubHex(0) && cs.Index[hx] > lastSelfIdx {
			lastSelf, lastSelfIdx = hx, cs.Index[hx]
		}
	}
	// events are recorded by the cluster scan only after a completed step: look them up in the store after restart too
	if err := x.C.Restart(0, true, it.FastSync > 0); err != nil {
		viol("restart-failed", err.Error())
		return
	}
	for _, e := range x.C.Errors {
		if strings.Contains(e, "init node 0") {
			viol("bootstrap-failed", e)
			return
		}
	}
	n := x.C.Nodes[0]
	if it.FastSync > 0 {
		res.Ctr["restarts_with_fast_sync_enabled"]++
		if st := n.Node.GetState().String(); st != "CatchingUp" {
			viol("fast-sync-restart-not-catching-up", "state after Init with bootstrap + fast-sync is "+st)
		}
		ff := sched.Action{K: "FF", A: 0}
		if it.FastSync == 2 {
			ff.Fault = "reqF"
		}
		x.Step(ff)
		if n.FFStep >= 0 && len(n.App.Restores) > 0 {
			// the node adopted a peer's anchor: it is no longer the node its database describes (C13 speaks
			// about what follows); only agreement and finality are monitored for the continuation
			res.Ctr["fast_forwarded_after_bootstrap"]++
			x.Step(sched.Action{K: "T", A: 1})
			x.FairSuffix(40)
			res.Steps += x.Steps
			for _, v := range x.Viol {
				if v.Property == "C01" || v.Property == "C02" || v.Property == "*" {
					idx := []int{}
					for _, cr := range n.App.Commits {
						idx = append(idx, cr.Body.Index)
					}
					viol("continuation-"+v.Property+"-"+v.Key, fmt.Sprintf("%s (restarted with bootstrap + fast-sync: the new application saw blocks %v, restores (after #commits, to block) %v)", v.What, idx, n.App.RestoreAt))
				}
			}
			return
		}
		res.Ctr["no_anchor_adopted_goes_on_from_database"]++
		if st := n.Node.GetState().String(); st != "Babbling" {
			viol("fast-sync-restart-stuck", "state after the unsuccessful fast-forward is "+st)
		}
	}
	// 1. re-delivery of every block delivered before the cut, identical, in order
	if len(n.App.Commits) < len(oldCommits) {
		viol("blocks-not-redelivered", fmt.Sprintf("delivered %d blocks before the crash, bootstrap re-delivered %d", len(oldCommits), len(n.App.Commits)))
	}
	for k := 0; k < len(oldCommits) && k < len(n.App.Commits); k++ {
		a, _ := json.Marshal(oldCommits[k].Body)
		b, _ := json.Marshal(n.App.Commits[k].Body)
		if string(a) != string(b) || string(oldCommits[k].StateHash) != string(n.App.Commits[k].StateHash) {
			viol("redelivered-block-differs", fmt.Sprintf("block %d re-delivered during bootstrap differs from the one delivered before the crash", k))
			break
		}
	}
	if len(oldCommits) > 0 {
		res.Ctr["points_with_blocks_before_crash"]++
	}
	res.Ctr["blocks_redelivered"] += len(oldCommits)
	// 2. knows exactly the events whose insertion had completed
	have := map[string]bool{}
	rep := n.Store.RepertoireByID()
	for id, last := range n.Store.KnownEvents() {
		p2, ok := rep[id]
		if !ok {
			continue
		}
		for i := 0; i <= last; i++ {
			hx, err := n.Store.ParticipantEvent(p2.PubKeyString(), i)
			if err != nil {
				viol("listing-gap", fmt.Sprintf("after bootstrap participant %d has last index %d but entry %d is missing", id, last, i))
				continue
			}
			have[hx] = true
		}
	}
	for hx := range written {
		if !have[hx] {
			viol("written-event-lost", fmt.Sprintf("event %s whose SetEvent had returned before the crash is unknown after bootstrap (%d written, %d known)", hx[:10], len(written), len(have)))
			break
		}
	}
	for hx := range have {
		if !written[hx] {
			viol("unwritten-event-known", fmt.Sprintf("event %s is known after bootstrap although its SetEvent never returned", hx[:10]))
			break
		}
	}
	// 3. head restored
	st2 := n.Node.VCoreState()
	if lastSelfIdx >= 0 && (st2.Head != lastSelf || st2.Seq != lastSelfIdx) {
		viol("head-not-restored", fmt.Sprintf("head/seq after bootstrap %s/%d, last persisted self-event %s/%d", short10(st2.Head), st2.Seq, short10(lastSelf), lastSelfIdx))
	}
	if lastSelfIdx < 0 && st2.Seq != -1 {
		viol("head-not-restored", fmt.Sprintf("seq after bootstrap %d but no self-event was persisted", st2.Seq))
	}
	dg, _ := recoveredDigest(x.C)
	res.Digests = append(res.Digests, fmt.Sprintf("%d:%s", p, dg))
	// 4. continuation: submit a transaction at X, run the fair suffix; X's next self-event has index seq+1 and is accepted everywhere
	x.Step(sched.Action{K: "T", A: 0})
	sr := x.FairSuffix(40)
	res.Steps += x.Steps
	if !sr.Quiescent {
		viol("continuation-not-quiescent", "after restart the cluster did not become quiescent within 40 fair cycles: "+sr.Reason)
	}
	// no self-fork: all events of creator 0 have distinct (index) and node 0's new events extend seq
	byIdx := map[int]string{}
	for _, hx := range x.C.EvOrder {
		r := x.C.Events[hx]
		if r.CreatorIdx != 0 {
			continue
		}
		if o, dup := byIdx[r.Index]; dup && o != hx {
			viol("self-fork", fmt.Sprintf("two events of the restarted node at height %d (%s, %s)", r.Index, short10(o), short10(hx)))
			break
		}
		byIdx[r.Index] = hx
	}
	created := false
	for _, hx := range x.C.EvOrder {
		r := x.C.Events[hx]
		if r.CreatorIdx == 0 && r.Index == lastSelfIdx+1 {
			created = true
			for _, o := range x.C.Nodes[1:] {
				// (judged at the nodes that take part in the continuation's gossip: a newcomer whose join was not
				// accepted before the crash is still Joining and is sent nothing)
				if o != nil && !o.Down && o.Node.GetState() == state.Babbling && !o.Has[hx] {
					viol("new-self-event-not-accepted", fmt.Sprintf("node %d did not accept the restarted node's first new self-event (index %d)", o.Idx, r.Index))
				}
			}
		}
	}
	if !created {
		viol("no-new-self-event", fmt.Sprintf("the restarted node created no self-event with index %d during the continuation", lastSelfIdx+1))
	}
	// 5. a second stop + bootstrap (clean shutdown this time): what the restarted node did in
	// between (events inserted, blocks delivered, head) must be in its database as well
	if !x.Dead() && !x.C.Nodes[0].Down {
		n1 := x.C.Nodes[0]
		knownBefore := fmt.Sprint(sortedKnown(n1.Store.KnownEvents()))
		commitsBefore := append([]sim.CommitRec{}, n1.App.Commits...)
		csb := n1.Node.VCoreState()
		if err := x.C.Restart(0, true, false); err != nil {
			viol("second-restart-failed", err.Error())
		} else {
			n2 := x.C.Nodes[0]
			res.Ctr["second_restarts"]++
			if k := fmt.Sprint(sortedKnown(n2.Store.KnownEvents())); k != knownBefore {
				viol("second-restart-events-lost", fmt.Sprintf("after a clean stop and a second bootstrap the node knows %s, before the stop it knew %s", k, knownBefore))
			}
			if len(n2.App.Commits) < len(commitsBefore) {
				viol("second-restart-blocks-not-redelivered", fmt.Sprintf("%d blocks delivered before the second stop, %d re-delivered", len(commitsBefore), len(n2.App.Commits)))
			}
			for k := 0; k < len(commitsBefore) && k < len(n2.App.Commits); k++ {
				a, _ := json.Marshal(commitsBefore[k].Body)
				b, _ := json.Marshal(n2.App.Commits[k].Body)
				if string(a) != string(b) || string(commitsBefore[k].StateHash) != string(n2.App.Commits[k].StateHash) {
					viol("second-restart-block-differs", fmt.Sprintf("block %d re-delivered by the second bootstrap differs", k))
					break
				}
			}
			cs2 := n2.Node.VCoreState()
			if cs2.Head != csb.Head || cs2.Seq != csb.Seq {
				viol("second-restart-head-not-restored", fmt.Sprintf("head/seq %s/%d before the second stop, %s/%d after the second bootstrap", short10(csb.Head), csb.Seq, short10(cs2.Head), cs2.Seq))
			}
			x.Step(sched.Action{K: "T", A: 0})
			if sr := x.FairSuffix(40); !sr.Quiescent {
				viol("second-continuation-not-quiescent", "after the second restart the cluster did not become quiescent: "+sr.Reason)
			}
			byIdx := map[int]string{}
			for _, hx := range x.C.EvOrder {
				r := x.C.Events[hx]
				if r.CreatorIdx != 0 {
					continue
				}
				if o, dup := byIdx[r.Index]; dup && o != hx {
					viol("self-fork-after-second-restart", fmt.Sprintf("two events of the twice restarted node at height %d", r.Index))
					break
				}
				byIdx[r.Index] = hx
			}
		}
	}
	for _, v := range x.Viol {
		if v.Property == "C01" || v.Property == "C02" || v.Property == "*" {
			viol("continuation-"+v.Property+"-"+v.Key, v.What)
		}
	}
	if len(res.Sample) == 0 {
		res.Sample = []string{fmt.Sprintf("crash before write %d of node 0 (%d events written, %d blocks delivered), restart with bootstrap, T(0), %d fair cycles, clean stop, second bootstrap, T(0), fair cycles", p, len(written), len(oldCommits), sr.Cycles)}
	}
}

func sortedKnown(m map[uint32]int) []string {
	var out []string
	for k, v := range m {
		out = append(out, fmt.Sprintf("%d=%d", k, v))
	}
	sort.Strings(out)
	return out
}

func short10(s string) string {
	if len(s) > 10 {
		return s[:10]
	}
	return s
}

func init() {
	// child process for the real-SIGKILL validation: `vcheck crashchild <base> <p> <dir>`
	checks["crashchild"] = func(args []string) int {
		p, _ := strconv.Atoi(args[1])
		sc, _ := crashScenario(args[0], p, true, args[2])
		x := sched.NewExec(sc, nil)
		x.NoDigest = true
		for _, a := range sc.Seed {
			x.Step(a)
		}
		// not killed: p beyond the history
		return 3
	}

	explore.Register("crash", func(spec json.RawMessage) (json.RawMessage, error) {
		var it CrashItem
		if err := json.Unmarshal(spec, &it); err != nil {
			return nil, err
		}
		res := &CrashResult{Ctr: map[string]int{}}
		dir := filepath.Join(scratchDir(), "crash")
		defer os.RemoveAll(scratchDir())
		if it.Clean {
			runCrashPoint(it, 0, res, dir)
		}
		for p := it.From; p < it.To; p++ {
			if p <= 0 {
				continue
			}
			if !it.Kill {
				runCrashPoint(it, p, res, dir)
				continue
			}
			// real kill in a child, then compare the recovered digest with the in-process cut
			kdir := filepath.Join(scratchDir(), "kill")
			os.RemoveAll(kdir)
			os.MkdirAll(kdir, 0o755)
			cmd := exec.Command(os.Args[0], "crashchild", it.Base, strconv.Itoa(p), kdir)
			cmd.Env = append(os.Environ(), "GOMAXPROCS=2")
			err := cmd.Run()
			if err == nil || !strings.Contains(err.Error(), "killed") {
				res.Ctr["kill_points_beyond_history"]++
				continue
			}
			lone := sim.NewCluster(sim.Config{N: sched.ScenarioByName(it.Base).Cfg.N, Solo: true, BootstrapDir: filepath.Join(kdir, "badger-0")})
			killDg, info := recoveredDigest(lone)
			lone.Close()
			// in-process cut at the same point, recovered by a lone node too
			os.RemoveAll(dir)
			os.MkdirAll(dir, 0o755)
			sc, _ := crashScenario(it.Base, p, false, dir)
			x := sched.NewExec(sc, nil)
			x.NoDigest = true
			for _, a := range sc.Seed {
				if x.C.Nodes[0].Down {
					break
				}
				x.Step(a)
			}
			sim.Disarm()
			x.C.Nodes[0].KeepDir = true
			x.Close()
			lone2 := sim.NewCluster(sim.Config{N: sc.Cfg.N, Solo: true, BootstrapDir: filepath.Join(dir, "badger-0")})
			cutDg, info2 := recoveredDigest(lone2)
			lone2.Close()
			res.Points++
			res.Ctr["sigkill_points"]++
			if killDg != cutDg {
				res.Viol = append(res.Viol, ev.Violation{Property: "C11", Key: "crash-model-mismatch",
					What:   fmt.Sprintf("%s write %d: state recovered after a real SIGKILL (%v) differs from the state recovered after the in-process cut (%v)", it.Base, p, info, info2),
					Replay: map[string]interface{}{"base": it.Base, "crash_before_write": p}})
			}
		}
		// one violation per key
		seen := map[string]bool{}
		var vs []ev.Violation
		for _, v := range res.Viol {
			if !seen[v.Key] {
				seen[v.Key] = true
				vs = append(vs, v)
			}
		}
		res.Viol = vs
		return json.Marshal(res)
	})

	checks["C11"] = func(args []string) int {
		th := ev.Tier() == "thorough"
		rep := ev.NewReport("C11", "fault_enumeration")
		type src struct {
			base   string
			writes int
			stride int
		}
		// number of writes of node 0 per seed is measured by a dry run
		measure := func(base string) int {
			dir := filepath.Join(scratchDir(), "measure")
			defer os.RemoveAll(scratchDir())
			sc, csp := crashScenario(base, 0, false, dir)
			x := sched.NewExec(sc, nil)
			x.NoDigest = true
			for _, a := range sc.Seed {
				x.Step(a)
			}
			sim.Disarm()
			w := (*csp).Writes
			x.Close()
			return w
		}
		srcs := []src{{"static:3:30", 0, 1}, {"join:3:5:60", 0, 2}}
		if th {
			srcs = []src{{"static:3:45", 0, 1}, {"join:3:5:84", 0, 1}, {"leave:4:6:60", 0, 2}}
		}
		var items []CrashItem
		total := map[string]int{}
		for i := range srcs {
			srcs[i].writes = measure(srcs[i].base)
			total[srcs[i].base] = srcs[i].writes
			items = append(items, CrashItem{Base: srcs[i].base, Clean: true})
			chunk := 12
			for from := 1; from <= srcs[i].writes; from += chunk * srcs[i].stride {
				if srcs[i].stride == 1 {
					items = append(items, CrashItem{Base: srcs[i].base, From: from, To: from + chunk})
				} else {
					for k := 0; k < chunk; k++ {
						p := from + k*srcs[i].stride
						if p <= srcs[i].writes {
							items = append(items, CrashItem{Base: srcs[i].base, From: p, To: p + 1})
						}
					}
				}
			}
		}
		// a history in which every event carries a 16 KiB transaction (more than a megabyte per hundred events in the
		// database): clean stop and every 20th (thorough: 6th) crash point
		{
			base := "bigtx:3:130:16"
			w := measure(base)
			total[base] = w
			items = append(items, CrashItem{Base: base, Clean: true})
			st := 20
			if th {
				st = 6
			}
			for p := 7; p <= w; p += st {
				items = append(items, CrashItem{Base: base, From: p, To: p + 1})
			}
		}
		// the same crash points with fast-sync enabled at the restart (bootstrap, then CatchingUp and one
		// Node.fastForward): 2 = no peer answers, 1 = peers as they are
		fsStride := 2
		if th {
			fsStride = 1
		}
		for _, mode := range []int{2, 1} {
			items = append(items, CrashItem{Base: srcs[0].base, Clean: true, FastSync: mode})
			for p := 1; p <= srcs[0].writes; p += fsStride {
				items = append(items, CrashItem{Base: srcs[0].base, From: p, To: p + 1, FastSync: mode})
			}
		}
		// a refused event before the crash: an adversary holding validator 1's key sends node 0 a correctly signed
		// event with a wrong index at seed position 14; every (2nd) later crash point
		{
			dev := []sched.Dev{{Pos: 14, Alt: sched.Action{K: "BX", A: 0, B: 1}, Ins: true}}
			items = append(items, CrashItem{Base: srcs[0].base, Clean: true, Devs: dev})
			for p := 60; p <= srcs[0].writes; p += fsStride {
				items = append(items, CrashItem{Base: srcs[0].base, From: p, To: p + 1, Devs: dev})
			}
		}
		// crash-model validation with real SIGKILLs
		kstride := 11
		if th {
			kstride = 3
		}
		for p := 1; p <= srcs[0].writes; p += kstride {
			items = append(items, CrashItem{Base: srcs[0].base, From: p, To: p + 1, Kill: true})
		}
		raw := make([]json.RawMessage, len(items))
		for i, it := range items {
			raw[i], _ = json.Marshal(it)
		}
		bud := budget(map[bool]time.Duration{false: 170 * time.Second, true: 40 * time.Minute}[th])
		pool := explore.Pool{Mode: "crash", Deadline: time.Now().Add(bud)}
		tot := &CrashResult{Ctr: map[string]int{}}
		var crashes []string
		digests := map[string]bool{}
		handed := pool.Run(raw, func(r explore.PoolResult) {
			if r.Crashed != "" || r.Err != "" {
				crashes = append(crashes, string(raw[r.Index])+": "+r.Crashed+r.Err)
				return
			}
			var res CrashResult
			json.Unmarshal(r.Res, &res)
			attachItem(res.Viol, "crash", raw[r.Index])
			tot.Points += res.Points
			tot.Steps += res.Steps
			tot.Viol = append(tot.Viol, res.Viol...)
			for k, v := range res.Ctr {
				tot.Ctr[k] += v
			}
			for _, d := range res.Digests {
				digests[strings.SplitN(d, ":", 2)[1]] = true
			}
			if len(tot.Sample) < 3 && len(res.Sample) > 0 {
				tot.Sample = append(tot.Sample, res.Sample...)
			}
		})
		if len(crashes) > 0 {
			for _, c := range crashes {
				fmt.Fprintln(os.Stderr, "worker problem:", c)
			}
			ev.Fail("%d work items failed in the harness", len(crashes))
		}
		rep.Violations = tot.Viol
		cov := rep.Coverage
		cov["evaluations"] = tot.Points
		cov["distinct_nontrivial"] = len(digests)
		cov["crash_points"] = tot.Ctr["crashes"]
		cov["writes_in_history"] = total
		cov["counters"] = tot.Ctr
		cov["exhaustive"] = handed == len(items)
		samples := []interface{}{}
		for _, s := range tot.Sample {
			samples = append(samples, s)
		}
		cov["samples"] = samples
		cov["rule"] = "node 0 runs on a BadgerStore; its database transactions are counted by a hook inside badger's Txn.Commit (a Store call may consist of several); for every transaction index p of the stated histories (static seed: every p; dynamic seeds: the stated stride) the node is cut before write p (all in-memory objects abandoned), its directory reopened by a fresh Node with Bootstrap=true through the real Init -> Hashgraph.Bootstrap -> setHeadAndSeq with a reset application, plus a clean close after the whole seed. Oracle: every block delivered before the cut is re-delivered identically and in order; the node knows exactly the events whose SetEvent had returned; head/seq = last persisted self-event; after a fair continuation its next self-event has index seq+1, is accepted by all, no two events of it share a height, and the C01/C02 monitors stay green; then the node is stopped cleanly and bootstrapped a second time and must know everything it knew before that stop (events, delivered blocks, head), continue without a self-fork. The crash points of the first history are repeated with fast-sync enabled at the restart (after Init the node is CatchingUp and runs the real Node.fastForward once: against its peers as they are, and with no peer answering); when no anchor is adopted the node must go on Babbling from its database and the whole oracle applies (restarts that do adopt an anchor are counted and only monitored for C01/C02). They are repeated once more with an event refused by the node before the crash (correctly signed by a validator key, right self-parent, wrong index). Crash-model validation: the same history in a child process that SIGKILLs itself at write p; the state recovered from its directory must equal the one recovered after the in-process cut. distinct_nontrivial = distinct recovered states"
		rep.Assumptions = []string{"a crash is modelled as the prefix of committed Badger transactions (a hook at the start of badger's Txn.Commit, added by the build overlay, counts them; validated by the SIGKILL pass); OS/power failure with SyncWrites=false is outside"}
		if tot.Ctr["points_with_blocks_before_crash"] < 5 && len(tot.Viol) == 0 {
			rep.Finish()
			ev.Fail("vacuity guard: only %d crash points had delivered blocks", tot.Ctr["points_with_blocks_before_crash"])
		}
		return rep.Finish()
	}
}
