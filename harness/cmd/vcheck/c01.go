package main

import (
	"fmt"
	"time"

	"verif/harness/ev"
	"verif/harness/sched"
)

// standard seeds shared by the history-quantified properties
const (
	scStatic3   = "static:3:45"
	scStatic4   = "static:4:56"
	scSilent4   = "silent:4:60:3:14"
	scSilent5   = "silent:5:70:4:10"
	scLate4     = "late:36"
	scJoin3     = "join:3:5:84"
	scLeave4    = "leave:4:6:84"
	scJoin2     = "join:2:4:60"
	scTwoLeaves = "twoleaves:5:8:90"
	scJoinLeave = "joinleave:4:6:84"
	scLaggards7 = "laggards:7:2:14:60:70"
	scLaggards4 = "laggards:4:1:8:40:50"
	scRejoin4   = "rejoin:4:6:50:90"
	// a minority validator records a transaction in an event that nobody hears of for 50 / 70 steps (the others advance
	// by some ten rounds meanwhile), while it keeps pulling / while it is cut off completely
	scUnheard4    = "unheard:4:1:8:50:50:1"
	scUnheard4cut = "unheard:4:1:8:50:50:0"
	scUnheard7    = "unheard:7:2:14:70:70:1"
	scRefused3    = "refused:3:5:84"
	scPart4       = "partition:4:2:10:24:40"
	scPart5       = "partition:5:3:10:30:50"
	scDups3       = "dups:3:45"
	scUnknownItx  = "unknownitx:3:6:50"
	// irregular schedules (one validator initiating four times less often) with a leave / a join + a leave at
	// step 8, picked offline among 2400 such schedules: in these, fame elections stay open long enough for a
	// validator-set change to become effective while some node has not yet delivered the block that carries
	// it if the six-round margin is shortened (seeded change C01-peerset-effective-one-round-early)
	scIrrA = "irregular:4:183:200:1"
	scIrrB = "irregular:4:802:200:1"
	scIrrC = "irregular:4:706:200:3"
	scIrrD = "irregular:4:1036:200:3"
	scIrrE = "irregular:4:1142:200:3"
)

func nodesOf(n int) []int {
	r := make([]int, n)
	for i := range r {
		r[i] = i
	}
	return r
}

// standardPhases builds the S1/S3 exploration shared by C01, C02, C04, C05,
// C06 and C10 (each check enables its own monitors).
func standardPhases(mons []string, suffix int, thorough bool) []Phase {
	var ph []Phase
	add := func(name string, items []sched.Item) { ph = append(ph, Phase{Name: name, Items: items}) }
	// S1: exhaustive small scope
	add("S1 n=1 depth 10 {M,T}", s1Items("s1:1:0", 10, 2, mons))
	if !thorough {
		add("S1 n=2 depth 7 {G01,G10,T0,T1}", s1Items("s1:2:0", 7, 2, mons))
		add("S1 n=3 depth 4 {6 gossip pairs,T0,T1,T2}", s1Items("s1:3:0", 4, 2, mons))
	} else {
		add("S1 n=2 depth 9 {G01,G10,T0,T1}", s1Items("s1:2:0", 9, 3, mons))
		add("S1 n=2 depth 6 {G,T,G lim=1,G respE-lost}", s1Items("s1:2:1", 6, 2, mons))
		add("S1 n=3 depth 5 {6 gossip pairs,T0,T1,T2}", s1Items("s1:3:0", 5, 2, mons))
	}
	// S3: deviation bounded around fair seeds
	seeds := []string{scStatic3, scStatic4, scSilent4, scSilent5, scLate4, scJoin3, scLeave4, scJoin2, scTwoLeaves, scJoinLeave, scLaggards7, scLaggards4, scRejoin4, scRefused3, scPart4, scPart5, scDups3, scIrrA, scIrrB, scIrrC, scIrrD, scIrrE, scUnknownItx, scUnheard4, scUnheard4cut, scUnheard7, "staticr:4:56", "staticr:2:40", "later:30:36", "badgernode:1:40:" + scStatic4, "badgernode:0:40:" + scJoin3, "badgernode:2:40:" + scLeave4}
	var d0 []sched.Item
	for _, s := range seeds {
		d0 = append(d0, s3Items(s, 0, nil, nil, mons, suffix)...)
	}
	add(fmt.Sprintf("S3 d=0 on %d seeds", len(seeds))+" (a minority validator's loaded event unheard of for ten rounds, static 4 / static 2 / late witness with rotating submissions, static 3/4, silent 4/5, late witness, join 3->4, leave 4->3, join 2->3, two leaves in one block, join+leave in one block, 2 one-way laggards of 7, 1 of 4, leave then re-join, join refused by the application, partitions 2|2 and 3|2 that heal, identical transaction bytes submitted repeatedly at one node and at several nodes, five irregular 200-step schedules with a leave or a join + leave and slow fame elections, signed internal transactions of an unknown type, and static4 / join 3->4 / leave 4->3 with one node keeping its store in a Badger database among in-memory nodes)", d0)
	// S2: seed prefix + exhaustive window + fair suffix
	w3 := "win:3:-1:" + scStatic3
	wj := "win:4:-1:" + scJoin3
	wl := "win:4:2:" + scLeave4
	n3, n4 := len(sched.WindowAlphabet(3, -1)), len(sched.WindowAlphabet(4, -1))
	if !thorough {
		add("S2 static3, windows at seed positions 12,17,22, all sequences of length 2 over 12 actions", s2Items(w3, []int{12, 17, 22}, 2, n3, mons, suffix))
		add("S2 join3to4, windows inside the activation window (positions 24,40), length 2 over 22 actions", s2Items(wj, []int{24, 40}, 2, n4, mons, suffix))
	}
	if mons[len(mons)-1] == "C01" {
		// reads through the node's API (validator sets of rounds that do not exist yet, statistics) at one node, at
		// every position of the seeds with a validator-set change: a read must not influence consensus
		var rd []sched.Item
		for _, scn := range []string{scJoin3, scLeave4} {
			var devs []sched.Dev
			for i := 0; i < 4; i++ {
				devs = append(devs, sched.Dev{Alt: sched.Action{K: "Q", A: i, B: 12}, Ins: true})
			}
			st := 2
			if thorough {
				st = 1
			}
			rd = append(rd, s3Items(scn, 1, seedPositions(scn, 0, 0, st), devs, mons, suffix)...)
		}
		add("join3to4 / leave4to3 with one API read (validator sets of the next 12 rounds, all sets, statistics) at one node inserted at a position (every 2nd; thorough every)", rd)
	}
	if mons[len(mons)-1] == "C04" {
		// the application applies its k-th block but the reply is lost (babble sees a failed commit call): whatever
		// babble does about it, no event may be committed a second time. Only the C04 monitor applies under this
		// fault (the stored block legitimately lacks the state hash babble never received).
		var cf []sched.Item
		for node := 0; node < 3; node++ {
			for k := 1; k <= 8; k++ {
				cf = append(cf, sched.Item{Scenario: fmt.Sprintf("commitfault:3:45:%d:%d", node, k), Mode: "s3", Mons: []string{"C04"}, Suffix: suffix})
			}
		}
		add("commit call k=1..8 of node 0/1/2 applied by the application, reply lost (static3 seed)", cf)
		// an accepted joiner that gossips before its effective round (its first event is sent to a validator, which
		// builds on it): ancestors before descendants also for events of a creator that is not a validator yet
		var ej []sched.Item
		for pos := 12; pos <= 52; pos += map[bool]int{true: 1, false: 2}[thorough] {
			ej = append(ej, sched.Item{Scenario: fmt.Sprintf("liarjoin:%d:3:0", pos), Mode: "s3", Mons: mons, Suffix: suffix})
		}
		add("an accepted joiner's first event is sent to a validator at seed position p=12..52 (before / after its join takes effect)", ej)
	}
	if mons[len(mons)-1] == "C10" {
		// nodes that joined later and did not replay history: a joiner that fast-forwards before / after its own join
		// became effective, optionally followed by a second join or a leave
		var fj []sched.Item
		for ffpos := 24; ffpos <= 100; ffpos += map[bool]int{true: 2, false: 8}[thorough] {
			for _, v := range []string{"ffjoin:3:5:110:%d:0:0", "ffjoin:3:5:110:%d:0:1", "ffjoin:4:5:120:%d:0:2"} {
				fj = append(fj, sched.Item{Scenario: fmt.Sprintf(v, ffpos), Mode: "s3", Mons: mons, Suffix: suffix})
			}
		}
		add("a joiner with fast-sync resets itself at seed position p (then nothing / a second join / a leave): its validator-set history against the full-history nodes'", fj)
	}
	if mons[len(mons)-1] == "C02" {
		// "starting where it began (0, or the block after a fast-sync anchor)": a validator that replays its
		// database and then runs the fast-forward every fast-sync node runs after Init
		var fb []sched.Item
		for down := 10; down <= 60; down++ {
			for _, gap := range []int{0, 12, 30} {
				if gap > 0 && !thorough && down%4 != 0 {
					continue
				}
				fb = append(fb, sched.Item{Scenario: fmt.Sprintf("ffboot:3:100:2:%d:%d:0", down, down+gap), Mode: "s3", Mons: []string{"C01ff", "C02"}, Suffix: suffix})
				if thorough || down%4 == 0 {
					fb = append(fb, sched.Item{Scenario: fmt.Sprintf("ffboot:4:100:3:%d:%d:0", down, down+gap), Mode: "s3", Mons: []string{"C01ff", "C02"}, Suffix: suffix})
				}
			}
		}
		// what a node reports for old blocks when it keeps them in a database behind a tiny cache
		var bn []sched.Item
		for _, base := range []string{scStatic3, scJoin3, scLeave4, scLate4} {
			for _, cache := range []int{20, 25, 40, 101} {
				bn = append(bn, sched.Item{Scenario: fmt.Sprintf("badgernode:0:%d:%s", cache, base), Mode: "s3", Mons: mons, Suffix: suffix})
			}
		}
		// the application applies its k-th block but the reply is lost: the delivery sequence must stay what it is
		// (every index once, round-received strictly increasing); what the node stores for that block is not judged
		var cf []sched.Item
		for node := 0; node < 3; node++ {
			for k := 1; k <= 8; k++ {
				cf = append(cf, sched.Item{Scenario: fmt.Sprintf("commitfault:3:45:%d:%d", node, k), Mode: "s3", Mons: []string{"C02seq"}, Suffix: suffix})
			}
		}
		add("commit call k=1..8 of node 0/1/2 applied by the application, reply lost (static3 seed): delivery sequence only", cf)
		add("node 0 on a BadgerStore with cache 20/25/40/101 (just above the in-flight window: what it reports for old blocks comes from the database): static3, join3to4, leave4to3, late witness, d=0", bn)
		add("a validator (2 of 3 / 3 of 4) on Badger with fast-sync enabled stops at d (d=10..60) and is restarted with bootstrap 0/12/30 steps later, then runs Node.fastForward (anchor behind, at or ahead of its own last block)", fb)
	}
	if !thorough {
		d1 := func(label, sc string, n, from, stride, silent int) {
			add(fmt.Sprintf("S3 d<=1 %s (every %d. position from %d, alphabet level 0%s)", label, stride, from, map[bool]string{true: ", one silent allowed", false: ""}[silent > 0]),
				s3Items(sc, 1, seedPositions(sc, from, 0, stride), devAlphabet(nodesOf(n), 0, silent), mons, suffix))
		}
		// the single-deviation phases of the quick tier differ per property (the seeds closest to what the
		// property speaks about); the thorough tier runs all of them for every property
		switch mons[len(mons)-1] {
		case "C02":
			d1("static3", scStatic3, 3, 0, 1, 0)
			d1("late witness", scLate4, 4, 0, 4, 1)
			d1("one-way laggard of 4 (late witnesses of an active creator)", scLaggards4, 4, 1, 4, 0)
			d1("leave4to3", scLeave4, 4, 1, 4, 0)
		case "C04":
			d1("static3 with identical transaction bytes everywhere", scDups3, 3, 0, 2, 0)
			d1("partition 2|2 that heals", scPart4, 4, 1, 4, 0)
			d1("join3to4", scJoin3, 4, 2, 3, 0)
			d1("one-way laggard of 4", scLaggards4, 4, 2, 6, 0)
		case "C10":
			d1("join3to4", scJoin3, 4, 2, 3, 0)
			d1("leave4to3", scLeave4, 4, 1, 4, 0)
			d1("leave then re-join", scRejoin4, 4, 3, 10, 0)
			d1("join refused by the application", scRefused3, 3, 1, 4, 0)
		default:
			d1("static3", scStatic3, 3, 0, 1, 0)
			d1("join3to4", scJoin3, 4, 2, 3, 0)
			d1("leave4to3", scLeave4, 4, 1, 4, 0)
			d1("static4 late witness", scLate4, 4, 0, 4, 1)
		}
	} else {
		add("S3 d<=1 static3 (every position, full alphabet)", s3Items(scStatic3, 1, seedPositions(scStatic3, 0, 0, 1), devAlphabet(nodesOf(3), 1, 0), mons, suffix))
		add("S3 d<=1 join3to4 (every position, level 0)", s3Items(scJoin3, 1, seedPositions(scJoin3, 0, 0, 1), devAlphabet(nodesOf(4), 0, 0), mons, suffix))
		add("S3 d<=1 leave4to3 (every position, level 0)", s3Items(scLeave4, 1, seedPositions(scLeave4, 0, 0, 1), devAlphabet(nodesOf(4), 0, 0), mons, suffix))
		add("S3 d<=1 late witness (every position, level 0 + silent)", s3Items(scLate4, 1, seedPositions(scLate4, 0, 0, 1), devAlphabet(nodesOf(4), 0, 1), mons, suffix))
		add("S3 d<=1 static4 (every 2nd position, full alphabet + silent)", s3Items(scStatic4, 1, seedPositions(scStatic4, 0, 0, 2), devAlphabet(nodesOf(4), 1, 1), mons, suffix))
		add("S3 d<=1 silent5 (every 2nd position, level 0)", s3Items(scSilent5, 1, seedPositions(scSilent5, 0, 0, 2), devAlphabet(nodesOf(5), 0, 0), mons, suffix))
		add("S3 d<=1 join2to3 (every position, level 0)", s3Items(scJoin2, 1, seedPositions(scJoin2, 0, 0, 1), devAlphabet(nodesOf(3), 0, 0), mons, suffix))
		add("S3 d<=1 leave then re-join (every 2nd position, level 0)", s3Items(scRejoin4, 1, seedPositions(scRejoin4, 0, 0, 2), devAlphabet(nodesOf(4), 0, 0), mons, suffix))
		add("S3 d<=1 join refused by the application (every 2nd position, level 0)", s3Items(scRefused3, 1, seedPositions(scRefused3, 0, 0, 2), devAlphabet(nodesOf(3), 0, 0), mons, suffix))
		add("S3 d<=1 partition 2|2 that heals (every 2nd position, level 0)", s3Items(scPart4, 1, seedPositions(scPart4, 0, 0, 2), devAlphabet(nodesOf(4), 0, 0), mons, suffix))
		add("S3 d<=1 one-way laggard of 4 (every 2nd position, level 0)", s3Items(scLaggards4, 1, seedPositions(scLaggards4, 0, 0, 2), devAlphabet(nodesOf(4), 0, 0), mons, suffix))
		add("S3 d<=1 irregular schedule 183 with a leave and slow elections (every 4th position, level 0)", s3Items(scIrrA, 1, seedPositions(scIrrA, 0, 0, 4), devAlphabet(nodesOf(4), 0, 0), mons, suffix))
		add("S3 d<=1 irregular schedule 706 with a join + leave and slow elections (every 4th position, level 0)", s3Items(scIrrC, 1, seedPositions(scIrrC, 0, 0, 4), devAlphabet(nodesOf(5), 0, 0), mons, suffix))
		add("S3 d<=1 two laggards of 7 (every 8th position, level 0)", s3Items(scLaggards7, 1, seedPositions(scLaggards7, 0, 0, 8), devAlphabet(nodesOf(7), 0, 0), mons, suffix))
		// S2 after the single deviations: length-3 windows are the most expensive phases
		add("S2 static3, windows at 8,12,15,17,20,22,26,30, length 3 over 12 actions", s2Items(w3, []int{8, 12, 15, 17, 20, 22, 26, 30}, 3, n3, mons, suffix))
		add("S2 join3to4, windows at 24,40,56, length 3 over 22 actions", s2Items(wj, []int{24, 40, 56}, 3, n4, mons, suffix))
		add("S2 leave4to3, windows at 24,36, length 3 over 23 actions (incl. a second leave)", s2Items(wl, []int{24, 36}, 3, n4+1, mons, suffix))
		add("S3 d=2 static3 (positions 8..32 step 3, level 0)", s3Items(scStatic3, 2, seedPositions(scStatic3, 8, 33, 3), devAlphabet(nodesOf(3), 0, 0), mons, suffix))
		add("S3 d=2 join3to4 (activation window, positions 6..60 step 6, level 0)", s3Items(scJoin3, 2, seedPositions(scJoin3, 6, 61, 6), devAlphabet(nodesOf(4), 0, 0), mons, suffix))
	}
	return ph
}

func init() {
	checks["C01"] = func(args []string) int {
		th := ev.Tier() == "thorough"
		b := 170 * time.Second
		if th {
			b = 40 * time.Minute
		}
		return runCluster(ClusterCheck{
			Prop: "C01", Level: "model_checking", Budget: budget(b),
			Phases: standardPhases([]string{"C01"}, 40, th),
			Floor:  50,
			Rule: "executions = all action sequences up to the stated depth (S1, with state matching) and all schedules within the stated number of deviations from fair seeds followed by a fair suffix (S3); " +
				"after every step every newly delivered block of every full-history node, and Store.GetBlock(i), is compared with the first delivery of index i (index, round-received, transactions, internal transactions, receipts, frame hash, peers hash, timestamp, state hash). " +
				"distinct_nontrivial = distinct final cluster states of executions in which some block index was delivered by two nodes whose event sets differed at that moment",
		})
	}
}
