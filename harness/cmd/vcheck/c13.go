package main

import (
	"encoding/json"
	"fmt"
	"strconv"
	"time"

	"verif/harness/ev"
	"verif/harness/explore"
	"verif/harness/mon"
	"verif/harness/sched"
	"verif/harness/sim"
)

func atoi(s string) int { v, _ := strconv.Atoi(s); return v }

func init() {
	monitorCtors["C01ff"] = func(st *mon.Stats) mon.Monitor {
		m := mon.NewAgreement(st)
		m.IncludeFF = true
		m.PropID = "C13"
		return m
	}
	monitorCtors["C13f"] = func(st *mon.Stats) mon.Monitor { return mon.NewFrameEq() }

	// ffjoin:<n>:<at>:<steps>:<ffpos>:<server+1>:<second>
	// n genesis validators; key n joins with fast-sync enabled (request at seed position <at>),
	// and fast-forwards at seed position <ffpos> (if it is catching up by then) from <server> (0: best of all).
	// second=1: key n+1 asks to join (no fast-sync) 6 steps after the fast-forward; second=2: node n-1 leaves then.
	sched.RegisterScenario("ffjoin", func(p []string) *sched.Scenario {
		n, at, steps, ffpos, server, second := atoi(p[1]), atoi(p[2]), atoi(p[3]), atoi(p[4]), atoi(p[5]), atoi(p[6])
		seed := sched.FairSeed(nodesOf(n), at, 4)
		seed = append(seed, sched.Action{K: "Start", A: n, B: 0, Lim: 1}, sched.Action{K: "J", A: n, B: 0})
		rest := sched.FairSeed(nodesOf(n+1), steps, 5)
		asked := map[int]int{n: 0}
		var out []sched.Action
		if second == 3 {
			// "ffjoin:n:at:steps:<minAnchor>:srv:3": a second join (key n+1, no fast-sync) is requested two steps
			// after the first, so that two changes are pending at the anchor; the first joiner fast-forwards as soon
			// as a peer offers an anchor with index >= minAnchor; a third join (key n+2) is requested 30 steps later.
			minAnchor := ffpos
			var o2 []sched.Action
			o2 = append(o2, sched.FairSeed(nodesOf(n), 9, 0)...)
			o2 = append(o2, sched.Action{K: "Start", A: n + 1, B: 1}, sched.Action{K: "J", A: n + 1, B: 1})
			asked[n+1] = 1
			third := false
			for i, a := range sched.FairSeed(nodesOf(n), steps, 4) {
				o2 = append(o2, sched.Action{K: "FF", A: n, B: server, Lim: minAnchor})
				if i%3 == 0 {
					o2 = append(o2, sched.Action{K: "G", A: n, B: i % n}, sched.Action{K: "G", A: n + 1, B: (i + 1) % n})
				}
				if i == 8*minAnchor+20 && !third {
					third = true
					o2 = append(o2, sched.Action{K: "Start", A: n + 2, B: 0}, sched.Action{K: "J", A: n + 2, B: 0})
					asked[n+2] = 0
				}
				if third && i%3 == 1 {
					o2 = append(o2, sched.Action{K: "G", A: n + 2, B: i % n})
				}
				o2 = append(o2, a)
			}
			return &sched.Scenario{Cfg: sim.Config{N: n}, Seed: append(seed, o2...), Asked: asked}
		}
		for i, a := range rest {
			if i >= ffpos {
				// at the first opportunity at/after p (a no-op error while the joiner is not catching up, and after it has reset)
				out = append(out, sched.Action{K: "FF", A: n, B: server})
			}
			if second == 1 && i == ffpos+6 {
				out = append(out, sched.Action{K: "Start", A: n + 1, B: 0}, sched.Action{K: "J", A: n + 1, B: 0})
				asked[n+1] = 0
			}
			if second == 2 && i == ffpos+6 {
				out = append(out, sched.Action{K: "L", A: n - 1})
			}
			out = append(out, a)
		}
		if second == 1 {
			out = append(out, sched.FairSeed(nodesOf(n+2), 40, 5)...)
		}
		return &sched.Scenario{Cfg: sim.Config{N: n}, Seed: append(seed, out...), Asked: asked}
	})
	// ffchain:<n>:<at>:<p1>:<gap>:<steps>:<minAnchor>
	// key n joins with fast-sync (request at <at>) and fast-forwards at seed position <p1> from the best anchor; key n+1
	// asks to join (fast-sync as well) four steps later and fast-forwards, <gap> steps after <p1>, from the FIRST
	// JOINER ONLY - a node that itself started from a frame - as soon as that node offers an anchor with index >=
	// minAnchor ("any honest node can serve any other": the frame a reset node computes must be the frame everybody
	// computes).
	sched.RegisterScenario("ffchain", func(p []string) *sched.Scenario {
		n, at, p1, gap, steps, minAnchor := atoi(p[1]), atoi(p[2]), atoi(p[3]), atoi(p[4]), atoi(p[5]), atoi(p[6])
		seed := sched.FairSeed(nodesOf(n), at, 4)
		seed = append(seed, sched.Action{K: "Start", A: n, B: 0, Lim: 1}, sched.Action{K: "J", A: n, B: 0})
		asked := map[int]int{n: 0, n + 1: 1}
		var out []sched.Action
		for i, a := range sched.FairSeed(nodesOf(n+1), p1+4, 5) {
			if i >= p1 {
				out = append(out, sched.Action{K: "FF", A: n})
			}
			out = append(out, a)
		}
		out = append(out, sched.Action{K: "FF", A: n}, sched.Action{K: "Start", A: n + 1, B: 1, Lim: 1}, sched.Action{K: "J", A: n + 1, B: 1})
		for i, a := range sched.FairSeed(nodesOf(n+2), steps, 6) {
			if i >= gap-4 {
				out = append(out, sched.Action{K: "FF", A: n + 1, B: n + 1, Lim: minAnchor})
			}
			out = append(out, a)
		}
		return &sched.Scenario{Cfg: sim.Config{N: n}, Seed: append(seed, out...), Asked: asked}
	})
	// ffboot:<n>:<steps>:<node>:<downAt>:<uppos>:<cache>
	// validator <node> keeps its events in a Badger database and runs with fast-sync enabled. It stops at seed
	// position <downAt> and is restarted at <uppos> with bootstrap: it replays its own database (re-delivering
	// its blocks 0..N to the new application), then - as every fast-sync node does after Init - is CatchingUp
	// and fast-forwards to the best anchor its peers offer, which may be older or newer than its own block N.
	sched.RegisterScenario("ffboot", func(p []string) *sched.Scenario {
		n, steps, node, downAt, uppos, cache := atoi(p[1]), atoi(p[2]), atoi(p[3]), atoi(p[4]), atoi(p[5]), atoi(p[6])
		var out []sched.Action
		out = append(out, sched.Action{K: "FF", A: node}) // nobody has an anchor yet: goes on to Babbling
		for i, a := range sched.FairSeed(nodesOf(n), steps, 4) {
			if i == downAt {
				out = append(out, sched.Action{K: "Crash", A: node})
			}
			if i == uppos {
				out = append(out, sched.Action{K: "Restart", A: node, Lim: 3}, sched.Action{K: "FF", A: node})
			}
			out = append(out, a)
		}
		cfg := sim.Config{N: n, FastSyncOf: map[int]bool{node: true}, Badger: map[int]bool{node: true}, Dir: scratchDir()}
		if cache > 0 {
			cfg.CacheOf = map[int]int{node: cache}
		}
		return &sched.Scenario{Cfg: cfg, Seed: out}
	})
	// ffrestart:<n>:<steps>:<node>:<downAt>:<ffpos>:<server+1>
	// validator <node> crashes at <downAt>, is restarted empty with fast-sync at <ffpos> and fast-forwards.
	sched.RegisterScenario("ffrestart", func(p []string) *sched.Scenario {
		n, steps, node, downAt, ffpos, server := atoi(p[1]), atoi(p[2]), atoi(p[3]), atoi(p[4]), atoi(p[5]), atoi(p[6])
		all := sched.FairSeed(nodesOf(n), steps, 4)
		var out []sched.Action
		for i, a := range all {
			if i == downAt {
				out = append(out, sched.Action{K: "Crash", A: node})
			}
			if i == ffpos {
				out = append(out, sched.Action{K: "Restart", A: node, Lim: 1}, sched.Action{K: "FF", A: node, B: server})
			}
			out = append(out, a)
		}
		return &sched.Scenario{Cfg: sim.Config{N: n}, Seed: out}
	})

	checks["C13"] = func(args []string) int {
		th := ev.Tier() == "thorough"
		mons := []string{"C01ff", "C13f", "C10", "C02"}
		var ph []Phase
		add := func(name string, items []sched.Item) { ph = append(ph, Phase{Name: name, Items: items}) }
		item := func(sc string) sched.Item { return sched.Item{Scenario: sc, Mode: "s3", Mons: mons, Suffix: 40} }
		stride := 2
		if th {
			stride = 1
		}
		var a, b, c2, d []sched.Item
		for ffpos := 20; ffpos <= 100; ffpos += stride {
			for server := 0; server <= 3; server++ {
				a = append(a, item(fmt.Sprintf("ffjoin:3:5:110:%d:%d:0", ffpos, server)))
			}
			b = append(b, item(fmt.Sprintf("ffjoin:3:5:110:%d:0:1", ffpos)))
			c2 = append(c2, item(fmt.Sprintf("ffjoin:4:5:120:%d:0:2", ffpos)))
		}
		for ffpos := 24; ffpos <= 60; ffpos += stride {
			for _, down := range []int{8, 20} {
				if down < ffpos {
					d = append(d, item(fmt.Sprintf("ffrestart:4:80:3:%d:%d:0", down, ffpos)))
				}
			}
		}
		var e2 []sched.Item
		for minAnchor := 1; minAnchor <= 9; minAnchor++ {
			e2 = append(e2, item(fmt.Sprintf("ffjoin:3:5:150:%d:0:3", minAnchor)))
		}
		add("joiner (3->4) fast-forwards at seed position p (p=20..100) from {best, node 0..2}", a)
		add("two joins requested nine steps apart (different blocks, overlapping activation windows) (3->4->5), the first joiner fast-forwards from the first anchor with index >= k (k=1..9), then a third join (->6)", e2)
		add("same, followed by a second join (4->5) six steps after the fast-forward", b)
		add("joiner (4->5) fast-forwards at p, then validator 3 leaves", c2)
		add("validator 3 of 4 crashes, restarts empty with fast-sync at p and fast-forwards", d)
		var fb []sched.Item
		for down := 10; down <= 60; down++ {
			for _, gap := range []int{0, 12, 30} {
				if gap > 0 && !th && down%4 != 0 {
					continue
				}
				fb = append(fb, item(fmt.Sprintf("ffboot:3:100:2:%d:%d:0", down, down+gap)))
				if th || down%4 == 0 {
					fb = append(fb, item(fmt.Sprintf("ffboot:4:100:3:%d:%d:0", down, down+gap)))
				}
			}
		}
		add("a validator (2 of 3 / 3 of 4) on Badger with fast-sync enabled stops at d (d=10..60) and is restarted with bootstrap 0, 12 or 30 steps later: replays its database, is CatchingUp, runs Node.fastForward (anchor behind, equal to or ahead of its own last block)", fb)
		var ch []sched.Item
		for p1 := 28; p1 <= 60; p1 += 2 * stride {
			for _, gap := range []int{16, 30, 50} {
				for _, minA := range []int{1, 4} {
					if !th && minA == 4 && gap != 30 {
						continue
					}
					ch = append(ch, item(fmt.Sprintf("ffchain:3:5:%d:%d:110:%d", p1, gap, minA)))
				}
			}
		}
		add("a second joiner (4->5) fast-forwards from the first joiner only, i.e. from a node that itself started from a frame (first fast-forward at p, second one 16/30/50 steps later, anchor index >= 1 / 4)", ch)
		{
			// single deviations of the schedule around a fast-forward (quick: every 9th / 12th position)
			e1, e2 := 9, 12
			if th {
				e1, e2 = 2, 3
			}
			name := "ffjoin:3:5:110:44:0:0"
			add(fmt.Sprintf("S3 d<=1 around the joiner fast-forward at p=44 (every %d. position, level 0)", e1), s3Items(name, 1, seedPositions(name, 10, 0, e1), devAlphabet(nodesOf(4), 0, 0), mons, 40))
			name = "ffjoin:3:5:110:60:0:1"
			add(fmt.Sprintf("S3 d<=1 around fast-forward at p=60 + second join (every %d. position, level 0)", e2), s3Items(name, 1, seedPositions(name, 10, 0, e2), devAlphabet(nodesOf(4), 0, 0), mons, 40))
		}
		bud := 170 * time.Second
		if th {
			bud = 40 * time.Minute
		}
		return runCluster(ClusterCheck{
			Prop: "C13", Level: "model_checking", Budget: budget(bud), Phases: ph, Floor: 10,
			AlsoProps: []string{"C10", "C02"},
			Rule:      "every seed position p at which a catching-up node (an accepted joiner with fast-sync, before or after its effective round; a validator restarted empty) runs the real Node.fastForward against every serving peer, followed by the rest of the seed (optionally a second join or a leave after the reset) and the fair suffix. Oracle after every step: blocks delivered by the reset node from anchor+1 on equal the first delivery of that index by anybody (same digest as C01, incl. state hash from the restored snapshot) as long as the reset node reported no insertion error; its validator-set table evolves by the C10 replay from the table it adopted and agrees with full-history nodes for rounds >= the anchor round; frames of every processed round have equal hashes on all full-history nodes",
			Pre: func(deadline time.Time) ([]ev.Violation, map[string]interface{}) {
				srcs := []string{"named:funkystacked", "named:coinround", "named:outoforder", "harvest:" + scStatic3, "harvest:" + scStatic4, "harvest:" + scLaggards4, "harvest:" + scPart4,
					"harvest:irregular:4:183:200:0", "harvest:irregular:4:802:200:0", "harvest:irregular:4:706:200:0", "harvest:slow:4:4:1:120", "harvest:slow:4:2:0:120"}
				if th {
					for k := 2; k <= 6; k++ {
						for o := 0; o < 2; o++ {
							srcs = append(srcs, fmt.Sprintf("harvest:slow:4:%d:%d:120", k, o))
						}
					}
					for _, i := range []int{1036, 1142, 1, 2, 3, 4, 5, 6, 7, 8} {
						srcs = append(srcs, fmt.Sprintf("harvest:irregular:4:%d:200:0", i))
					}
				}
				raw := make([]json.RawMessage, len(srcs))
				for i, s := range srcs {
					raw[i], _ = json.Marshal(DagResetItem{Source: s})
				}
				pool := explore.Pool{Mode: "dagreset", Deadline: deadline}
				tot := DagResetResult{}
				var viol []ev.Violation
				pool.Run(raw, func(r explore.PoolResult) {
					if r.Crashed != "" || r.Err != "" {
						ev.Fail("dag-reset item %s failed in the harness: %s%s", string(raw[r.Index]), r.Crashed, r.Err)
					}
					var res DagResetResult
					json.Unmarshal(r.Res, &res)
					attachItem(res.Viol, "dagreset", raw[r.Index])
					tot.Dags += res.Dags
					tot.Anchors += res.Anchors
					tot.Compared += res.Compared
					tot.Stalled += res.Stalled
					tot.BlocksCompared += res.BlocksCompared
					viol = append(viol, res.Viol...)
				})
				return viol, map[string]interface{}{"dag_reset": map[string]interface{}{"dags": tot.Dags, "anchors": tot.Anchors, "anchors_followed_to_the_end": tot.Compared,
					"anchors_after_which_an_event_could_not_be_inserted": tot.Stalled, "blocks_compared": tot.BlocksCompared,
					"rule": "static DAGs (hand-drawn ones with out-of-order and coin-round elections, final DAGs of regular, slow-validator and irregular runs) inserted one event at a time into a full-history hashgraph; for every block it delivered a fresh hashgraph is Reset to that block and frame (through the JSON encoding) and fed the remaining events in the same order; as long as it can insert them it must deliver from anchor+1 on exactly the full instance's blocks (index, round-received, transactions, frame hash, peers hash, timestamp)"}}
			},
			Extra: func(cov map[string]interface{}, agg *Agg) {
				cov["fast_forwards_performed"] = agg.Counters["ff_done"]
				cov["reset_nodes_stalled"] = agg.Counters["ff_stalled_nodes"]
				cov["blocks_delivered_by_reset_nodes"] = agg.Counters["ff_blocks_after_reset"]
			},
		})
	}
}
