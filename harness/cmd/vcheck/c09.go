package main

import (
	"fmt"
	"strconv"
	"time"

	hg "github.com/mosaicnetworks/babble/src/hashgraph"
	"verif/harness/ev"
	"verif/harness/mon"
	"verif/harness/sched"
	"verif/harness/sim"
)

// adversarial block-signature payloads the harness-played validator B puts in
// its next event
var byzKinds = []string{"other-body", "future", "negative", "dup", "stranger", "relabel", "malformed-1part", "malformed-3part", "wrong-value", "member-other", "valid"}

// byzInject adds adversarial entries to B's pool of own block signatures; B's
// next self-event carries them (signed by B), the wire form attributes each to B.
func byzInject(c *sim.Cluster, b int, kind string, other int) error {
	n := c.Nodes[b]
	pool := n.Node.VSelfSigPool()
	last := n.Store.LastBlockIndex()
	if last < 0 {
		return fmt.Errorf("byz: no block yet")
	}
	blk, err := n.Store.GetBlock(last)
	if err != nil {
		return err
	}
	own, err := blk.Sign(n.Key)
	if err != nil {
		return err
	}
	pub := sim.PubOf(b)
	switch kind {
	case "valid":
		pool.Add(own)
	case "other-body":
		if last < 1 {
			return fmt.Errorf("byz: need two blocks")
		}
		pool.Add(hg.BlockSignature{Validator: pub, Index: last - 1, Signature: own.Signature})
	case "future":
		pool.Add(hg.BlockSignature{Validator: pub, Index: last + 5, Signature: own.Signature})
	case "negative":
		pool.Add(hg.BlockSignature{Validator: pub, Index: -1, Signature: own.Signature})
	case "dup":
		pool.Add(own)
		pool.Add(hg.BlockSignature{Validator: append(append([]byte{}, pub...), 0), Index: last, Signature: own.Signature})
	case "stranger":
		s, _ := blk.Sign(sim.Key(9))
		pool.Add(s)
	case "relabel":
		// B's valid signature filed under another validator's key in B's pool: the wire drops the label
		pool.Add(hg.BlockSignature{Validator: sim.PubOf(0), Index: last, Signature: own.Signature})
	case "malformed-1part":
		pool.Add(hg.BlockSignature{Validator: pub, Index: last, Signature: "abc"})
	case "malformed-3part":
		pool.Add(hg.BlockSignature{Validator: pub, Index: last, Signature: "1|2|3"})
	case "wrong-value":
		pool.Add(hg.BlockSignature{Validator: pub, Index: last, Signature: "1|1"})
	case "member-other":
		// a signature made with the key `other` (a removed / not yet effective / plain other member) over the true body
		s, _ := blk.Sign(sim.Key(other))
		pool.Add(s)
	default:
		return fmt.Errorf("unknown byz kind %s", kind)
	}
	return nil
}

func init() {
	monitorCtors["C09"] = func(st *mon.Stats) mon.Monitor { return mon.NewBlockSigs() }
	// C10's last clause ("only peers in a round's set can ... have block signatures accepted for it"): the C09
	// monitor's membership verdict, reported under C10
	monitorCtors["C10sig"] = func(st *mon.Stats) mon.Monitor {
		return &relabel{Monitor: mon.NewBlockSigs(), keep: "signer-not-in-round-set", as: "C10"}
	}
	monitorCtors["C09b1"] = func(st *mon.Stats) mon.Monitor { m := mon.NewBlockSigs(); m.Byz[1] = true; return m }
	monitorCtors["C09b3"] = func(st *mon.Stats) mon.Monitor { m := mon.NewBlockSigs(); m.Byz[3] = true; return m }
	sched.CustomActions["BZ"] = func(c *sim.Cluster, a sched.Action) error {
		return c.Custom(fmt.Sprintf("BZ(%d,%s,%d)", a.A, a.Tx, a.B), func() error { return byzInject(c, a.A, a.Tx, a.B) })
	}
	_ = strconv.Itoa

	checks["C09"] = func(args []string) int {
		th := ev.Tier() == "thorough"
		var ph []Phase
		add := func(name string, items []sched.Item) { ph = append(ph, Phase{Name: name, Items: items}) }
		honest := []string{"C01", "C09"}
		add("S1 n=2 depth 7", s1Items("s1:2:0", 7, 2, honest))
		add("S1 n=1 depth 10", s1Items("s1:1:0", 10, 2, honest))
		var d0 []sched.Item
		for _, s := range []string{scStatic3, scStatic4, scSilent4, scSilent5, scLate4, scJoin3, scLeave4, scJoin2, scTwoLeaves, scJoinLeave, scRejoin4, scRefused3, scUnknownItx, scLaggards4} {
			d0 = append(d0, s3Items(s, 0, nil, nil, honest, 40)...)
		}
		add("honest seeds d=0 (14 seeds, incl. two membership changes in one block, re-join, refused join, internal transactions of an unknown type, one-way laggard)", d0)
		add("S3 d<=1 internal transactions of an unknown type (every 4th position, level 0)", s3Items(scUnknownItx, 1, seedPositions(scUnknownItx, 0, 0, 4), devAlphabet(nodesOf(3), 0, 0), honest, 40))
		stride := 3
		if th {
			stride = 1
		}
		add(fmt.Sprintf("S3 d<=1 static3 (every %d. position, level 0)", stride), s3Items(scStatic3, 1, seedPositions(scStatic3, 0, 0, stride), devAlphabet(nodesOf(3), 0, 0), honest, 40))
		// harness-played validator: static4 with B = node 3
		byz := func(scn string, b int, monName string, other int, kinds []string, from, stride int) []sched.Item {
			var devs []sched.Dev
			for _, k := range kinds {
				devs = append(devs, sched.Dev{Alt: sched.Action{K: "BZ", A: b, B: other, Tx: k}, Ins: true})
			}
			return s3Items(scn, 1, seedPositions(scn, from, 0, stride), devs, []string{"C01", monName}, 40)
		}
		bs := 2
		if th {
			bs = 1
		}
		add(fmt.Sprintf("static4, validator 3 gossips one adversarial signature payload (11 kinds) before every %d. step", bs), byz(scStatic4, 3, "C09b3", 0, byzKinds, 18, bs))
		add("leave4to3, validator 1 gossips signatures made with the leaving validator's key / adversarial payloads", byz(scLeave4, 1, "C09b1", 3, []string{"member-other", "stranger", "other-body", "relabel"}, 10, 3*bs))
		add("join3to4, validator 1 gossips signatures made with the joiner's key (not yet effective) / adversarial payloads", byz(scJoin3, 1, "C09b1", 3, []string{"member-other", "stranger", "other-body", "relabel"}, 10, 3*bs))
		add("leave4to3, the leaving validator itself keeps signing the latest block (also after its removal took effect)", byz(scLeave4, 3, "C09b3", 0, []string{"valid", "other-body"}, 12, 2*bs))
		add("join3to4, the joiner signs the latest block before and after its effective round", byz(scJoin3, 3, "C09b3", 0, []string{"valid", "other-body"}, 12, 2*bs))
		// the application of node 0 attached through the socket proxy and unreachable during some commit calls
		{
			var items []sched.Item
			pats := []string{"duu", "udu", "uud", "ddu", "dud", "udd", "ddd", "late1", "late2", "late3"}
			for _, p := range pats {
				for _, base := range []string{scStatic3, scStatic4, scJoin3} {
					items = append(items, s3Items("sockapp:"+p+":"+base, 0, nil, nil, []string{"C09"}, 40)...)
				}
			}
			add("node 0's application behind the socket proxy, unreachable during the commit calls of 10 patterns (cut + refused dials for a subset of the first three calls; not yet started until the 1st/2nd/3rd call returned) x static3, static4, join3to4", items)
			ps := 9
			if th {
				ps = 1
			}
			var dev []sched.Item
			for _, p := range []string{"ddu", "late1"} {
				scn := "sockapp:" + p + ":" + scStatic3
				dev = append(dev, s3Items(scn, 1, seedPositions(scn, 0, 0, ps), devAlphabet(nodesOf(3), 0, 0), []string{"C09"}, 40)...)
			}
			add(fmt.Sprintf("S3 d<=1 static3 with the socket-attached application down (patterns ddu, late1; every %d. position, level 0)", ps), dev)
		}
		if th {
			// two adversarial events per execution
			var devs []sched.Dev
			for _, k := range byzKinds {
				devs = append(devs, sched.Dev{Alt: sched.Action{K: "BZ", A: 3, Tx: k}, Ins: true})
			}
			add("static4, two adversarial payloads (positions 20..50 step 6)", s3Items(scStatic4, 2, seedPositions(scStatic4, 20, 51, 6), devs, []string{"C01", "C09b3"}, 40))
			// adversarial payload + one schedule deviation
			mixed := append([]sched.Dev{}, devs[:5]...)
			mixed = append(mixed, devAlphabet(nodesOf(4), 0, 0)...)
			add("static4, adversarial payload x schedule deviation (positions 20..44 step 8)", s3Items(scStatic4, 2, seedPositions(scStatic4, 20, 45, 8), mixed, []string{"C01", "C09b3"}, 40))
		}
		b := 170 * time.Second
		if th {
			b = 40 * time.Minute
		}
		return runCluster(ClusterCheck{
			Prop: "C09", Level: "model_checking", Budget: budget(b), Phases: ph, Floor: 50,
			Rule:        "honest schedules (S1, seeds, single deviations) plus a harness-played validator (a real node whose pool of outgoing block signatures receives adversarial entries: signature over another body, future/negative index, duplicate, stranger's key, relabelled, malformed, signature by a removed / not-yet-effective / other member) at every chosen position. Oracle after every step at every honest node, with plain crypto/ecdsa and an independent body digest: every stored (validator, signature) verifies against that node's body of the block and the validator is in the block's round set; a foreign signature is recorded under V only if an event created by V carried it; an anchor has valid signatures of > n/3 distinct members (>=1) and never moves backwards between resets; every signature an honest node gossips verifies against the block it delivered incl. state hash and receipts. In the socket-proxy phases only this monitor runs (a node whose application missed a block legitimately reports other state hashes than its peers)",
			Assumptions: []string{"malformed signature strings that make DecodeSignature return nil integers crash the verifier; those are C08's subject and are not injected here"},
		})
	}
}

// relabel forwards the violations of one key of a monitor under another property id.
type relabel struct {
	mon.Monitor
	keep, as string
}

func (r *relabel) ID() string { return r.as }
func (r *relabel) AfterStep(c *sim.Cluster) []ev.Violation {
	var out []ev.Violation
	for _, v := range r.Monitor.AfterStep(c) {
		if v.Key == r.keep {
			v.Property = r.as
			out = append(out, v)
		}
	}
	return out
}
