package main

import (
	"bufio"
	"bytes"
	"context"
	"encoding/json"
	"fmt"
	"io"
	stdnet "net"
	"os"
	"reflect"
	"strings"
	"sync"
	"syscall"
	"time"

	hg "github.com/mosaicnetworks/babble/src/hashgraph"
	"github.com/mosaicnetworks/babble/src/node/state"
	"github.com/mosaicnetworks/babble/src/peers"
	"github.com/mosaicnetworks/babble/src/proxy"
	"github.com/mosaicnetworks/babble/src/proxy/inmem"
	aproxy "github.com/mosaicnetworks/babble/src/proxy/socket/app"
	bproxy "github.com/mosaicnetworks/babble/src/proxy/socket/babble"
	"verif/harness/ev"
	"verif/harness/sim"
)

// recHandler records what the application side receives and answers from a script.
type recHandler struct {
	mu        sync.Mutex
	blocks    []hg.Block
	snapReq   []int
	restores  [][]byte
	states    []state.State
	resp      proxy.CommitResponse
	snapshot  []byte
	stateHash []byte
	fail      error
}

func (h *recHandler) CommitHandler(b hg.Block) (proxy.CommitResponse, error) {
	h.mu.Lock()
	defer h.mu.Unlock()
	h.blocks = append(h.blocks, b)
	return h.resp, h.fail
}
func (h *recHandler) SnapshotHandler(i int) ([]byte, error) {
	h.mu.Lock()
	defer h.mu.Unlock()
	h.snapReq = append(h.snapReq, i)
	return h.snapshot, h.fail
}
func (h *recHandler) RestoreHandler(s []byte) ([]byte, error) {
	h.mu.Lock()
	defer h.mu.Unlock()
	h.restores = append(h.restores, append([]byte{}, s...))
	return h.stateHash, h.fail
}
func (h *recHandler) StateChangeHandler(s state.State) error {
	h.mu.Lock()
	defer h.mu.Unlock()
	h.states = append(h.states, s)
	return h.fail
}
func (h *recHandler) reset() {
	h.mu.Lock()
	defer h.mu.Unlock()
	h.blocks, h.snapReq, h.restores, h.states = nil, nil, nil, nil
}

// shim is a TCP forwarder that applies one fault action per request message.
type shim struct {
	ln     stdnet.Listener
	target string
	mu     sync.Mutex
	faults []string // consumed one per request: none | before | after-req | reply-<k>
	seen   int      // requests seen
	isDown bool
	addr   string
	hold   int // while down: a socket bound to addr that does not listen (dials are refused, the port stays ours)
}

// reusePort lets the forwarder's listener and its placeholder socket share the address, so that going down and
// coming up never releases the port (another process, or an outgoing connection, could otherwise take it).
func reusePort(network, address string, c syscall.RawConn) error {
	var serr error
	if err := c.Control(func(fd uintptr) {
		serr = syscall.SetsockoptInt(int(fd), syscall.SOL_SOCKET, soReusePort, 1)
	}); err != nil {
		return err
	}
	return serr
}

func listenReuse(addr string) (stdnet.Listener, error) {
	lc := stdnet.ListenConfig{Control: reusePort}
	return lc.Listen(context.Background(), "tcp", addr)
}

// holdPort binds (without listening) a socket to addr.
func holdPort(addr string) (int, error) {
	ta, err := stdnet.ResolveTCPAddr("tcp", addr)
	if err != nil {
		return -1, err
	}
	fd, err := syscall.Socket(syscall.AF_INET, syscall.SOCK_STREAM, 0)
	if err != nil {
		return -1, err
	}
	if err := syscall.SetsockoptInt(fd, syscall.SOL_SOCKET, soReusePort, 1); err != nil {
		syscall.Close(fd)
		return -1, err
	}
	sa := &syscall.SockaddrInet4{Port: ta.Port}
	copy(sa.Addr[:], ta.IP.To4())
	if err := syscall.Bind(fd, sa); err != nil {
		syscall.Close(fd)
		return -1, err
	}
	return fd, nil
}

func newShim(addr, target string) (*shim, error) {
	ln, err := listenReuse(addr)
	if err != nil {
		return nil, err
	}
	s := &shim{ln: ln, target: target, addr: addr, hold: -1}
	go s.serve()
	return s, nil
}

// down makes the application side unreachable: the listener is closed (dials are refused) and
// established connections are cut at their next request; up re-opens it on the same address.
func (s *shim) down() {
	fd, err := holdPort(s.addr)
	if err != nil {
		ev.Fail("forwarder: cannot hold %s while down: %v", s.addr, err)
	}
	s.mu.Lock()
	s.isDown = true
	s.hold = fd
	s.mu.Unlock()
	s.ln.Close()
}

func (s *shim) up() error {
	var ln stdnet.Listener
	var err error
	for i := 0; i < 200; i++ {
		ln, err = listenReuse(s.addr)
		if err == nil {
			break
		}
		time.Sleep(10 * time.Millisecond)
	}
	if err != nil {
		return err
	}
	s.mu.Lock()
	s.isDown = false
	s.ln = ln
	if s.hold >= 0 {
		syscall.Close(s.hold)
		s.hold = -1
	}
	s.mu.Unlock()
	go s.serve()
	return nil
}

func (s *shim) set(f []string) {
	s.mu.Lock()
	s.faults = append([]string{}, f...)
	s.seen = 0
	s.mu.Unlock()
}

func (s *shim) next() string {
	s.mu.Lock()
	defer s.mu.Unlock()
	s.seen++
	if len(s.faults) == 0 {
		return "none"
	}
	f := s.faults[0]
	s.faults = s.faults[1:]
	return f
}

func (s *shim) serve() {
	s.mu.Lock()
	ln := s.ln
	s.mu.Unlock()
	for {
		c, err := ln.Accept()
		if err != nil {
			return
		}
		go s.handle(c)
	}
}

func (s *shim) handle(c stdnet.Conn) {
	defer c.Close()
	up, err := stdnet.DialTimeout("tcp", s.target, 5*time.Second)
	if err != nil {
		return
	}
	defer up.Close()
	cr := bufio.NewReaderSize(c, 1<<16)
	ur := bufio.NewReaderSize(up, 1<<16)
	for {
		req, err := cr.ReadBytes('\n')
		if err != nil {
			return
		}
		f := s.next()
		s.mu.Lock()
		dn := s.isDown
		s.mu.Unlock()
		if f == "before" || dn {
			return
		}
		if _, err := up.Write(req); err != nil {
			return
		}
		rep, err := ur.ReadBytes('\n')
		if err != nil {
			return
		}
		switch {
		case f == "after-req":
			return
		case strings.HasPrefix(f, "reply-"):
			k := 0
			fmt.Sscanf(f, "reply-%d", &k)
			if k > len(rep)-3 { // the cut must really truncate the JSON reply
				k = len(rep) / 2
			}
			c.Write(rep[:k])
			return
		}
		if _, err := c.Write(rep); err != nil {
			return
		}
	}
}

func c20Blocks() map[string]hg.Block {
	txShapes := map[string][]byte{
		"empty": {}, "ascii": []byte("hello world"), "binary": {0x00, 0xff, 0x01, 0xfe, '"', '\\', '\n', 0x7f},
		"bad-utf8": {0xc3, 0x28, 0xa0, 0xa1, 0xe2, 0x28, 0xa1}, "64KB": bin(65536, 5), "1MB": bin(1<<20, 6),
	}
	pl := []*peers.Peer{peers.NewPeer(sim.PubHex(0), "a0", "m0"), peers.NewPeer(sim.PubHex(1), "a1", "m1")}
	out := map[string]hg.Block{}
	names := []string{"empty", "ascii", "binary", "bad-utf8", "64KB", "1MB"}
	mk := func(label string, txs [][]byte, itxs []hg.InternalTransaction, nsig int, receipts bool) {
		b := hg.NewBlock(3, 7, bin(32, 1), pl, txs, itxs, 1600000000)
		b.Body.StateHash = bin(32, 2)
		if receipts {
			for i, it := range itxs {
				itc := it
				if i%2 == 0 {
					b.Body.InternalTransactionReceipts = append(b.Body.InternalTransactionReceipts, itc.AsAccepted())
				} else {
					b.Body.InternalTransactionReceipts = append(b.Body.InternalTransactionReceipts, itc.AsRefused())
				}
			}
		}
		for i := 0; i < nsig; i++ {
			bs, _ := b.Sign(sim.Key(i))
			b.SetSignature(bs)
		}
		out[label] = *b
	}
	mk("no transactions (nil)", nil, nil, 0, false)
	mk("no transactions (empty slices)", [][]byte{}, []hg.InternalTransaction{}, 1, false)
	for _, a := range names {
		mk("1 tx "+a, [][]byte{txShapes[a]}, nil, 1, false)
		for _, b := range names {
			if a == "1MB" && b == "1MB" {
				continue
			}
			mk("2 txs "+a+","+b, [][]byte{txShapes[a], txShapes[b]}, []hg.InternalTransaction{sim.JoinTx(5)}, 2, true)
		}
	}
	mk("3 txs binary,empty,bad-utf8 + 2 internal transactions", [][]byte{txShapes["binary"], txShapes["empty"], txShapes["bad-utf8"]}, []hg.InternalTransaction{sim.JoinTx(5), sim.JoinTx(6)}, 2, true)
	mk("nil transaction element", [][]byte{nil, txShapes["ascii"]}, nil, 0, false)
	return out
}

func bodyHashOf(b *hg.Block) string {
	h, _ := b.Body.Hash()
	return fmt.Sprintf("%x", h)
}

func init() {
	checks["C20"] = func(args []string) int {
		rep := ev.NewReport("C20", "fault_enumeration")
		th := ev.Tier() == "thorough"
		base := 21000 + (os.Getpid()%400)*10
		addr := func(k int) string { return fmt.Sprintf("127.0.0.1:%d", base+k) }
		// app-side server A=addr(0); babble-side server B=addr(1); shim1 S1=addr(2) -> A; shim2 S2=addr(3) -> B
		h := &recHandler{}
		timeout := 10 * time.Second
		log := discardLogger()
		appSide, err := bproxy.NewSocketBabbleProxy(addr(3), addr(0), h, timeout, log)
		if err != nil {
			ev.Fail("C20: cannot start the application-side proxy: %v", err)
		}
		babbleSide, err := aproxy.NewSocketAppProxy(addr(2), addr(1), timeout, log)
		if err != nil {
			ev.Fail("C20: cannot start the babble-side proxy: %v", err)
		}
		s1, err := newShim(addr(2), addr(0))
		if err != nil {
			ev.Fail("C20: shim: %v", err)
		}
		s2, err := newShim(addr(3), addr(1))
		if err != nil {
			ev.Fail("C20: shim: %v", err)
		}
		hin := &recHandler{}
		in := inmem.NewInmemProxy(hin, log)

		seen := map[string]bool{}
		viol := func(key, what string, rp map[string]interface{}) {
			if seen[key] {
				return
			}
			seen[key] = true
			rep.Violations = append(rep.Violations, ev.Violation{Property: "C20", Key: key, What: what, Replay: rp})
		}
		// fault vectors over the three attempts (prefix-closed: stops at the first "none")
		faultKinds := []string{"before", "after-req", "reply-1", "reply-40"}
		if th {
			faultKinds = append(faultKinds, "reply-5", "reply-200")
		}
		var vectors [][]string
		vectors = append(vectors, []string{"none"})
		for _, a := range faultKinds {
			vectors = append(vectors, []string{a, "none"})
			for _, b := range faultKinds {
				vectors = append(vectors, []string{a, b, "none"})
				for _, c := range faultKinds {
					vectors = append(vectors, []string{a, b, c})
				}
			}
		}
		allFail := func(v []string) bool { return len(v) == 3 && v[2] != "none" }
		// A connection that the shim closed after a fault stays cached in the
		// client until the next call notices; that call would burn one of its
		// three attempts before any request reaches the shim. An undisturbed
		// warm-up call before every case re-establishes a live connection, so
		// that fault i really applies to attempt i.
		warm1 := func() {
			s1.set(nil)
			h.mu.Lock()
			h.snapshot = []byte{1}
			h.mu.Unlock()
			if _, err := babbleSide.GetSnapshot(0); err != nil {
				ev.Fail("C20: warm-up call failed: %v", err)
			}
		}
		warm2 := func() {
			s2.set(nil)
			if err := appSide.SubmitTx([]byte("warm-up")); err != nil {
				ev.Fail("C20: warm-up submission failed: %v", err)
			}
		}
		evals, classes := 0, map[string]bool{}
		samples := []interface{}{}

		responses := map[string]proxy.CommitResponse{
			"nil state hash, nil receipts":     {},
			"empty state hash, empty receipts": {StateHash: []byte{}, InternalTransactionReceipts: []hg.InternalTransactionReceipt{}},
			"32-byte state hash, 2 receipts": {StateHash: bin(32, 3), InternalTransactionReceipts: func() []hg.InternalTransactionReceipt {
				a, b := sim.JoinTx(5), sim.JoinTx(6)
				return []hg.InternalTransactionReceipt{a.AsAccepted(), b.AsRefused()}
			}()},
			"binary state hash": {StateHash: []byte{0x00, 0xff, '"', '\n', 0xc3, 0x28}},
		}
		blocks := c20Blocks()
		bnames := []string{}
		for k := range blocks {
			bnames = append(bnames, k)
		}
		sortStrings(bnames)
		rnames := []string{}
		for k := range responses {
			rnames = append(rnames, k)
		}
		sortStrings(rnames)

		// ---- CommitBlock
		for bi, bn := range bnames {
			blk := blocks[bn]
			for ri, rn := range rnames {
				resp := responses[rn]
				// in-process reference
				hin.reset()
				hin.resp = resp
				inResp, inErr := in.CommitBlock(blk)
				// nil and empty are different values once the block body is hashed (JSON null vs ""): what Babble
				// receives must be exactly what the application returned, through either proxy
				if inErr == nil && (inResp.StateHash == nil) != (resp.StateHash == nil) {
					viol("commit-response-differs:nil-vs-empty:in-process", fmt.Sprintf("CommitBlock(%s) response(%s): the application returned a state hash with nil=%v, Babble received nil=%v through the in-process proxy", bn, rn, resp.StateHash == nil, inResp.StateHash == nil), map[string]interface{}{"call": "CommitBlock", "block": bn, "response": rn})
				}
				vs := vectors
				if !th && (bi+ri)%4 != 0 {
					vs = vectors[:1+len(faultKinds)] // quick: all vectors only for a quarter of the payloads, single-fault vectors for the rest
				}
				for _, v := range vs {
					evals++
					classes["commit|"+bn+"|"+strings.Join(v, ",")] = true
					warm1()
					h.reset()
					h.resp = resp
					s1.set(v)
					got, err := babbleSide.CommitBlock(blk)
					label := fmt.Sprintf("CommitBlock(%s) response(%s) faults %v", bn, rn, v)
					rp := map[string]interface{}{"call": "CommitBlock", "block": bn, "response": rn, "faults": v}
					if len(samples) < 4 {
						samples = append(samples, label)
					}
					if allFail(v) {
						if err == nil {
							viol("empty-success:CommitBlock", label+": all three attempts were cut but the call returned no error (response "+fmt.Sprint(got)+")", rp)
						}
						continue
					}
					if err != nil {
						viol("error-although-an-attempt-succeeded:CommitBlock", fmt.Sprintf("%s: returned error %v although attempt %d was not disturbed", label, err, len(v)), rp)
						continue
					}
					if inErr != nil {
						continue
					}
					if (got.StateHash == nil) != (resp.StateHash == nil) {
						viol("commit-response-differs:nil-vs-empty:socket", fmt.Sprintf("%s: the application returned a state hash with nil=%v, Babble received nil=%v", label, resp.StateHash == nil, got.StateHash == nil), rp)
					}
					if !bytes.Equal(got.StateHash, inResp.StateHash) || !reflect.DeepEqual(normReceipts(got.InternalTransactionReceipts), normReceipts(inResp.InternalTransactionReceipts)) {
						viol("commit-response-differs:"+rn, fmt.Sprintf("%s: Babble received %v, the application returned %v", label, short200(got), short200(inResp)), rp)
					}
					h.mu.Lock()
					nb := len(h.blocks)
					var last hg.Block
					if nb > 0 {
						last = h.blocks[nb-1]
					}
					h.mu.Unlock()
					if nb == 0 {
						viol("handler-not-called:CommitBlock", label+": success reported but the application handler never saw the block", rp)
						continue
					}
					ref := hin.blocks[0]
					if bodyHashOf(&last) != bodyHashOf(&ref) {
						viol("block-content-differs:"+classOfBlock(bn), fmt.Sprintf("%s: body hash at the application %s, in-process %s", label, bodyHashOf(&last)[:12], bodyHashOf(&ref)[:12]), rp)
					}
					if !reflect.DeepEqual(last.Signatures, ref.Signatures) && !(len(last.Signatures) == 0 && len(ref.Signatures) == 0) {
						viol("block-signatures-differ", label+": signature map differs at the application", rp)
					}
					for i := range ref.Body.Transactions {
						if i >= len(last.Body.Transactions) || !bytes.Equal(ref.Body.Transactions[i], last.Body.Transactions[i]) {
							viol("transaction-bytes-differ:"+classOfBlock(bn), label+": transaction bytes differ at the application", rp)
							break
						}
					}
				}
			}
		}
		// ---- what Babble holds for block N must not change when later blocks are committed: consecutive commit
		// calls whose responses all carry receipts (no other call in between), each response kept and compared again
		// at the end
		{
			mk := func(ks []int, accepted []bool) proxy.CommitResponse {
				var rs []hg.InternalTransactionReceipt
				for i, k := range ks {
					itx := sim.JoinTx(k)
					if accepted[i] {
						rs = append(rs, itx.AsAccepted())
					} else {
						rs = append(rs, itx.AsRefused())
					}
				}
				return proxy.CommitResponse{StateHash: bin(32, byte(ks[0])), InternalTransactionReceipts: rs}
			}
			seq := []proxy.CommitResponse{mk([]int{5, 6}, []bool{true, false}), mk([]int{7}, []bool{false}), mk([]int{8, 9, 10}, []bool{false, true, true}), mk([]int{11, 12}, []bool{true, true})}
			for _, side := range []string{"socket", "in-process"} {
				var held []proxy.CommitResponse
				var want []string
				s1.set(nil)
				for _, r := range seq {
					evals++
					raw, _ := json.Marshal(r)
					want = append(want, string(raw))
					var got proxy.CommitResponse
					var err error
					if side == "socket" {
						h.reset()
						h.resp = r
						got, err = babbleSide.CommitBlock(blocks[bnames[0]])
					} else {
						hin.reset()
						hin.resp = r
						got, err = in.CommitBlock(blocks[bnames[0]])
					}
					if err != nil {
						viol("error-although-undisturbed:CommitBlock", fmt.Sprintf("%s proxy: consecutive commit call failed: %v", side, err), nil)
					}
					held = append(held, got)
				}
				for i := range held {
					raw, _ := json.Marshal(held[i])
					if string(raw) != want[i] {
						viol("retained-commit-response-changed", fmt.Sprintf("%s proxy: the response Babble received for commit %d of %d consecutive ones reads %s after the later commits; the application had returned %s", side, i+1, len(seq), short200(held[i]), want[i][:200]), map[string]interface{}{"side": side, "commit": i})
					}
				}
			}
			classes["commit|consecutive responses with receipts, retained"] = true
		}
		// ---- GetSnapshot / Restore / OnStateChanged
		// (a nil snapshot is encoded as a JSON null result, which the jsonrpc client reports as an error: outside the grammar)
		snaps := map[string][]byte{"empty": {}, "binary": {0x00, 0xff, '"', '\n'}, "64KB": bin(65536, 7)}
		for sn, snap := range snaps {
			for _, v := range vectors {
				evals++
				classes["snapshot|"+sn+"|"+strings.Join(v, ",")] = true
				warm1()
				h.reset()
				h.snapshot = snap
				s1.set(v)
				got, err := babbleSide.GetSnapshot(42)
				label := fmt.Sprintf("GetSnapshot(42) -> %s snapshot, faults %v", sn, v)
				rp := map[string]interface{}{"call": "GetSnapshot", "snapshot": sn, "faults": v}
				if allFail(v) {
					if err == nil {
						viol("empty-success:GetSnapshot", label+": all attempts cut but no error", rp)
					}
				} else if err != nil {
					viol("error-although-an-attempt-succeeded:GetSnapshot", fmt.Sprintf("%s: %v", label, err), rp)
				} else {
					if !bytes.Equal(got, snap) {
						viol("snapshot-differs:"+sn, fmt.Sprintf("%s: Babble received %d bytes, the application returned %d", label, len(got), len(snap)), rp)
					}
					h.mu.Lock()
					if len(h.snapReq) == 0 || h.snapReq[len(h.snapReq)-1] != 42 {
						viol("snapshot-index-differs", label+": the application saw another block index", rp)
					}
					h.mu.Unlock()
				}
				// Restore
				evals++
				warm1()
				h.reset()
				h.stateHash = bin(32, 8)
				s1.set(v)
				err = babbleSide.Restore(snap)
				label = fmt.Sprintf("Restore(%s snapshot), faults %v", sn, v)
				rp = map[string]interface{}{"call": "Restore", "snapshot": sn, "faults": v}
				if allFail(v) {
					if err == nil {
						viol("empty-success:Restore", label+": all attempts cut but no error", rp)
					}
				} else if err != nil {
					viol("error-although-an-attempt-succeeded:Restore", fmt.Sprintf("%s: %v", label, err), rp)
				} else {
					h.mu.Lock()
					if len(h.restores) == 0 || !bytes.Equal(h.restores[len(h.restores)-1], snap) {
						viol("restore-snapshot-differs:"+sn, label+": the application was restored from different bytes", rp)
					}
					h.mu.Unlock()
				}
			}
		}
		for _, st := range []state.State{state.Babbling, state.CatchingUp, state.Suspended, state.Shutdown} {
			for _, v := range vectors {
				evals++
				classes["state|"+st.String()+"|"+strings.Join(v, ",")] = true
				warm1()
				h.reset()
				s1.set(v)
				err := babbleSide.OnStateChanged(st)
				label := fmt.Sprintf("OnStateChanged(%s), faults %v", st, v)
				rp := map[string]interface{}{"call": "OnStateChanged", "state": st.String(), "faults": v}
				if allFail(v) {
					if err == nil {
						viol("empty-success:OnStateChanged", label+": all attempts cut but no error", rp)
					}
				} else if err != nil {
					viol("error-although-an-attempt-succeeded:OnStateChanged", fmt.Sprintf("%s: %v", label, err), rp)
				} else {
					h.mu.Lock()
					if len(h.states) == 0 || h.states[len(h.states)-1] != st {
						viol("state-differs", label+": the application saw another state", rp)
					}
					h.mu.Unlock()
				}
			}
		}
		// ---- the application side goes away (its address refuses connections), comes back later
		for round := 0; round < 2; round++ {
			warm1()
			s1.down()
			type callT struct {
				name string
				f    func() error
			}
			calls := []callT{
				{"CommitBlock", func() error { _, err := babbleSide.CommitBlock(blocks[bnames[1]]); return err }},
				{"GetSnapshot", func() error { _, err := babbleSide.GetSnapshot(1); return err }},
				{"Restore", func() error { return babbleSide.Restore([]byte{1, 2}) }},
				{"OnStateChanged", func() error { return babbleSide.OnStateChanged(state.Babbling) }},
				{"CommitBlock", func() error { _, err := babbleSide.CommitBlock(blocks[bnames[2]]); return err }},
			}
			for k, cl := range calls {
				evals++
				classes[fmt.Sprintf("appdown|%d|%s", k, cl.name)] = true
				h.reset()
				if err := cl.f(); err == nil {
					viol("empty-success-while-application-unreachable:"+cl.name, fmt.Sprintf("call #%d (%s) after the application side became unreachable (all dials refused) returned no error", k+1, cl.name), map[string]interface{}{"call": cl.name, "position": k + 1})
				}
			}
			if err := s1.up(); err != nil {
				ev.Fail("C20: cannot re-open the shim: %v", err)
			}
			evals++
			h.reset()
			h.resp = responses[rnames[2]]
			if got, err := babbleSide.CommitBlock(blocks[bnames[1]]); err != nil {
				viol("no-recovery-after-application-returns", fmt.Sprintf("after the application side came back a CommitBlock still fails: %v", err), nil)
			} else if !bytes.Equal(got.StateHash, h.resp.StateHash) {
				viol("commit-response-differs:after-recovery", "state hash differs after recovery", nil)
			}
		}
		// an application-side error must come back as an error
		h.reset()
		warm1()
		h.reset()
		h.fail = fmt.Errorf("application says no")
		s1.set([]string{"none", "none", "none"})
		if _, err := babbleSide.CommitBlock(blocks[bnames[0]]); err == nil {
			viol("application-error-swallowed:CommitBlock", "the application's CommitHandler returned an error, the proxy call returned none", nil)
		}
		h.fail = nil
		// ---- SubmitTx through both proxies
		txs := map[string][]byte{"empty": {}, "ascii": []byte("tx"), "binary": {0x00, 0xff, '"', '\n'}, "bad-utf8": {0xc3, 0x28}, "64KB": bin(65536, 9), "1MB": bin(1<<20, 10)}
		tnames := []string{"empty", "ascii", "binary", "bad-utf8", "64KB", "1MB"}
		recv := make(chan []byte, 64)
		go func() {
			for tx := range babbleSide.SubmitCh() {
				recv <- tx
			}
		}()
		recvIn := make(chan []byte, 64)
		go func() {
			for tx := range in.SubmitCh() {
				recvIn <- tx
			}
		}()
		drain := func(ch chan []byte) [][]byte {
			var out [][]byte
			for {
				select {
				case t := <-ch:
					out = append(out, t)
				default:
					return out
				}
			}
		}
		// exact=false: every transaction of a sequence gets a distinguishing last byte; exact=true: the payload
		// shapes as they are, each submitted twice in a row (byte-identical consecutive transactions, truly empty ones)
		seqTx := func(exact bool, start, k int) []byte {
			if exact {
				return append([]byte{}, txs[tnames[(start+k/2)%len(tnames)]]...)
			}
			return append(append([]byte{}, txs[tnames[(start+k)%len(tnames)]]...), byte(k))
		}
		for _, exact := range []bool{false, true} {
			for n := 1; n <= 5; n++ {
				if exact && n < 2 {
					continue
				}
				for start := range tnames {
					vs := vectors[:1+len(faultKinds)+len(faultKinds)*len(faultKinds)]
					if exact {
						vs = vectors[:1]
					}
					for _, v := range vs {
						evals++
						classes[fmt.Sprintf("submit|%v|%d|%s|%s", exact, n, tnames[start], strings.Join(v, ","))] = true
						warm2()
						select {
						case <-recv:
						case <-time.After(20 * time.Second):
						}
						drain(recv)
						var sent [][]byte
						var okSent [][]byte
						s2.set(v)
						for k := 0; k < n; k++ {
							tx := seqTx(exact, start, k)
							buf := append([]byte{}, tx...)
							err := appSide.SubmitTx(buf)
							for i := range buf {
								buf[i] ^= 0xff // the caller reuses its buffer
							}
							sent = append(sent, tx)
							if err == nil {
								okSent = append(okSent, tx)
							} else if !(k == 0 && allFail(v)) && !strings.Contains(strings.Join(v, ","), "before") && !strings.Contains(strings.Join(v, ","), "after") && !strings.Contains(strings.Join(v, ","), "reply") {
								viol("error-although-undisturbed:SubmitTx", fmt.Sprintf("SubmitTx #%d of %d returned %v without any fault", k, n, err), nil)
							}
							if k == 0 && allFail(v) && err == nil {
								viol("empty-success:SubmitTx", fmt.Sprintf("SubmitTx with faults %v: all attempts cut but no error", v), map[string]interface{}{"faults": v})
							}
						}
						// wait (generously) until as many transactions arrived as were acknowledged, then take what else is there
						// (a call that failed may have delivered its transaction all the same, once or several times: arrivals are
						// matched by content, not counted)
						var got [][]byte
						haveAll := func() bool {
							pos := 0
							for _, tx := range okSent {
								found := false
								for pos < len(got) {
									pos++
									if bytes.Equal(got[pos-1], tx) {
										found = true
										break
									}
								}
								if !found {
									return false
								}
							}
							return true
						}
						deadline := time.After(60 * time.Second)
					waitLoop:
						for !haveAll() {
							select {
							case t := <-recv:
								got = append(got, t)
							case <-deadline:
								break waitLoop
							}
						}
						time.Sleep(time.Millisecond)
						got = append(got, drain(recv)...)
						// every acknowledged transaction arrived byte-identical; first arrivals keep the submission order
						pos := 0
						for _, tx := range okSent {
							found := false
							for pos < len(got) {
								if bytes.Equal(got[pos], tx) {
									found = true
									pos++
									break
								}
								pos++
							}
							if !found {
								viol("acknowledged-transaction-missing-or-reordered", fmt.Sprintf("SubmitTx x%d starting with %s, faults %v: an acknowledged transaction did not reach the node byte-identical and in order (sent %d, acknowledged %d, received %d)", n, tnames[start], v, len(sent), len(okSent), len(got)), map[string]interface{}{"n": n, "first": tnames[start], "faults": v})
								break
							}
						}
						if len(v) == 0 || strings.Join(v, ",") == strings.Join(vectors[0], ",") {
							if len(got) != len(sent) {
								viol("acknowledged-transaction-missing-or-reordered", fmt.Sprintf("SubmitTx x%d starting with %s (exact payloads: %v), no fault: %d submitted and acknowledged, %d received", n, tnames[start], exact, len(sent), len(got)), map[string]interface{}{"n": n, "first": tnames[start], "exact": exact})
							}
						}
						for _, g := range got {
							known := false
							for _, tx := range sent {
								if bytes.Equal(g, tx) {
									known = true
								}
							}
							if !known {
								viol("unknown-transaction-received", fmt.Sprintf("SubmitTx x%d faults %v: the node received a transaction that was never submitted in that form", n, v), map[string]interface{}{"n": n, "faults": v})
							}
						}
					}
					// in-process proxy: same sequence, no faults
					drain(recvIn)
					var sent [][]byte
					for k := 0; k < n; k++ {
						tx := seqTx(exact, start, k)
						buf := append([]byte{}, tx...)
						in.SubmitTx(buf)
						for i := range buf {
							buf[i] ^= 0xff
						}
						sent = append(sent, tx)
					}
					var got [][]byte
					dl := time.After(20 * time.Second)
				waitIn:
					for len(got) < len(sent) {
						select {
						case t := <-recvIn:
							got = append(got, t)
						case <-dl:
							break waitIn
						}
					}
					got = append(got, drain(recvIn)...)
					evals++
					if len(got) != len(sent) {
						viol("inmem-submit-count", fmt.Sprintf("in-process proxy: %d submitted, %d received", len(sent), len(got)), nil)
					} else {
						for i := range got {
							if !bytes.Equal(got[i], sent[i]) {
								viol("inmem-submit-differs", "in-process proxy: a transaction arrived different from what was submitted (caller's buffer aliased?)", nil)
							}
						}
					}
				}
			}
		}
		s1.ln.Close()
		s2.ln.Close()
		cov := rep.Coverage
		cov["evaluations"] = evals
		cov["distinct_nontrivial"] = len(classes)
		cov["fault_vectors"] = len(vectors)
		cov["block_shapes"] = len(blocks)
		cov["exhaustive"] = true
		cov["samples"] = samples
		cov["rule"] = "a real SocketAppProxy (Babble side) and SocketBabbleProxy (application side) over loopback TCP, and the InmemProxy, in front of the same recording handler; a TCP shim between them applies one fault action per request message. Enumerated: payload grammar (blocks with 0..3 transactions of shapes {empty, ASCII, binary with 0x00/0xff/quotes/newlines, invalid UTF-8, 64KB, 1MB}, nil vs empty slices, nil element, 0..2 internal transactions with receipts, 0..2 signatures) x commit responses {nil, empty, 32-byte, binary state hash; 0/2 receipts} x call {CommitBlock, GetSnapshot, Restore, OnStateChanged, SubmitTx sequences of 1..5 per connection, with a distinguishing last byte and - without faults - as exact payloads each submitted twice in a row (byte-identical consecutive and truly empty transactions)} x fault vector over the three attempts in {none, cut before request, cut after request before reply, cut after k reply bytes}^3, prefix-closed (quick: full vectors for a quarter of the block/response pairs, single-fault vectors for the rest). Oracle: the application handler receives a block with the same body hash, signatures and transaction bytes as in-process; Babble receives exactly the returned state hash and receipts; every response of four consecutive commits whose responses all carry receipts still reads as the application returned it after the last of them; acknowledged transactions arrive byte-identical and in order; nil error only together with the genuine reply, error iff all attempts failed. Additionally the application side becomes unreachable (dials refused) for five consecutive calls, which must all fail, and comes back (the next call must succeed). Faults are connection closes / refusals, never delays"
		rep.Assumptions = []string{"retries after a lost reply may deliver a block / transaction to the other side more than once; the property does not speak about that and it is not flagged"}
		return rep.Finish()
	}
}

func normReceipts(r []hg.InternalTransactionReceipt) []hg.InternalTransactionReceipt {
	if len(r) == 0 {
		return nil
	}
	return r
}

func short200(v interface{}) string {
	raw, _ := json.Marshal(v)
	if len(raw) > 200 {
		return string(raw[:200]) + "…"
	}
	return string(raw)
}

func classOfBlock(n string) string {
	if i := strings.Index(n, " "); i > 0 {
		return strings.Fields(n)[len(strings.Fields(n))-1]
	}
	return n
}

func sortStrings(s []string) {
	for i := range s {
		for j := i + 1; j < len(s); j++ {
			if s[j] < s[i] {
				s[i], s[j] = s[j], s[i]
			}
		}
	}
}

var _ = io.EOF

// SO_REUSEPORT on Linux (the syscall package does not export it for every architecture)
const soReusePort = 0xf
