package main

import (
	"encoding/json"
	"fmt"
	"strings"

	hg "github.com/mosaicnetworks/babble/src/hashgraph"
	"verif/harness/dag"
	"verif/harness/ev"
	"verif/harness/explore"
	"verif/harness/sched"
)

// DagResetItem: one DAG; every block a full-history instance delivers for it is used as a fast-sync anchor.
type DagResetItem struct {
	Source string `json:"src"` // "named:<x>" | "harvest:<scenario>"
}

type DagResetResult struct {
	Dags, Anchors, Compared, Stalled, BlocksCompared int
	Viol                                             []ev.Violation `json:"viol,omitempty"`
}

func loadDagSource(src string) ([]dag.Ev, int) {
	p := strings.Split(src, ":")
	switch p[0] {
	case "named":
		return namedDag(p[1])
	case "harvest":
		sc := sched.ScenarioByName(strings.Join(p[1:], ":"))
		x := sched.NewExec(sc, nil)
		x.NoDigest = true
		for _, a := range sc.Seed {
			x.Step(a)
		}
		evs := dag.Harvest(x.C)
		n := sc.Cfg.N
		x.Close()
		return evs, n
	}
	return nil, 0
}

func bodyKey(b hg.BlockBody) string {
	raw, _ := json.Marshal(struct {
		I, R int
		T    [][]byte
		F, P []byte
		TS   int64
	}{b.Index, b.RoundReceived, b.Transactions, b.FrameHash, b.PeersHash, b.Timestamp})
	return string(raw)
}

func init() {
	// dagreset: the events of a static DAG are inserted one by one (a consensus pass per event, as nodes do) into a
	// full-history hashgraph; then, for every block it delivered, a fresh hashgraph is Reset to that block and its frame
	// (through the JSON encoding, as a fast-forward response travels) and receives the remaining events in the same
	// order. As long as it can insert them it must deliver, from anchor+1 on, exactly the blocks the full instance did.
	explore.Register("dagreset", func(spec json.RawMessage) (json.RawMessage, error) {
		var it DagResetItem
		if err := json.Unmarshal(spec, &it); err != nil {
			return nil, err
		}
		res := &DagResetResult{}
		evs, n := loadDagSource(it.Source)
		if evs == nil {
			return json.Marshal(res)
		}
		res.Dags++
		full := dag.Open(n, false, "", 10000)
		defer full.Close()
		for i := range evs {
			if err, _ := full.Insert(evs[i].Fresh()); err != nil {
				return nil, fmt.Errorf("%s: base insertion %d failed: %v", it.Source, i, err)
			}
		}
		commits := full.N.App.Commits
		for k := 0; k+1 < len(commits); k++ {
			blk, err := full.N.Store.GetBlock(commits[k].Body.Index)
			if err != nil {
				continue
			}
			fr, err := full.H.GetFrame(blk.RoundReceived())
			if err != nil {
				continue
			}
			res.Anchors++
			var b hg.Block
			var f hg.Frame
			jsonRoundTrip(blk, &b)
			jsonRoundTrip(fr, &f)
			inst := dag.Open(n, false, "", 10000)
			if err := inst.H.Reset(&b, &f); err != nil {
				inst.Close()
				res.Stalled++
				continue
			}
			// the frame the reset node now holds (and would serve to others) still is the frame of the anchor block
			if held, err := inst.N.Store.GetFrame(blk.RoundReceived()); err == nil {
				hh, _ := held.Hash()
				if string(hh) != string(blk.FrameHash()) {
					res.Viol = append(res.Viol, ev.Violation{Property: "C13", Key: "dag-reset:held-frame-differs",
						What:   fmt.Sprintf("%s: after the reset to block %d the frame the node holds for round %d no longer hashes to the block's frame hash (it could not serve another node)", it.Source, commits[k].Body.Index, blk.RoundReceived()),
						Replay: map[string]interface{}{"dag": it.Source, "anchor": commits[k].Body.Index}})
				}
			}
			stalled := false
			for i := range evs {
				if _, err := inst.N.Store.GetEvent(evs[i].Hex); err == nil {
					continue
				}
				if err, _ := inst.Insert(evs[i].Fresh()); err != nil {
					// below the frame or hanging on something below it: from here on the reset node "cannot insert
					// the events it receives"
					stalled = true
					break
				}
			}
			got := inst.N.App.Commits
			if stalled {
				res.Stalled++
			} else {
				res.Compared++
			}
			for j := range got {
				want := k + 1 + j
				if want >= len(commits) {
					if !stalled {
						res.Viol = append(res.Viol, ev.Violation{Property: "C13", Key: "dag-reset:extra-block",
							What:   fmt.Sprintf("%s: a hashgraph reset to block %d delivers %d blocks afterwards, the full-history instance only %d", it.Source, commits[k].Body.Index, len(got), len(commits)-k-1),
							Replay: map[string]interface{}{"dag": it.Source, "anchor": commits[k].Body.Index}})
					}
					break
				}
				res.BlocksCompared++
				if bodyKey(got[j].Body) != bodyKey(commits[want].Body) {
					res.Viol = append(res.Viol, ev.Violation{Property: "C13", Key: "dag-reset:block-differs",
						What: fmt.Sprintf("%s: reset to block %d (round-received %d), the next block but %d is %s; the full-history instance delivered %s",
							it.Source, commits[k].Body.Index, commits[k].Body.RoundReceived, j, bodyKey(got[j].Body), bodyKey(commits[want].Body)),
						Replay: map[string]interface{}{"dag": it.Source, "anchor": commits[k].Body.Index}})
					break
				}
			}
			if !stalled && len(got) < len(commits)-k-1 {
				res.Viol = append(res.Viol, ev.Violation{Property: "C13", Key: "dag-reset:blocks-missing",
					What:   fmt.Sprintf("%s: a hashgraph reset to block %d inserted every remaining event but delivers %d blocks afterwards, the full-history instance %d", it.Source, commits[k].Body.Index, len(got), len(commits)-k-1),
					Replay: map[string]interface{}{"dag": it.Source, "anchor": commits[k].Body.Index}})
			}
			inst.Close()
		}
		// one violation per key
		seen := map[string]bool{}
		var vs []ev.Violation
		for _, v := range res.Viol {
			if !seen[v.Key] {
				seen[v.Key] = true
				vs = append(vs, v)
			}
		}
		res.Viol = vs
		return json.Marshal(res)
	})
	// dbgdagreset <source>...
	checks["dbgdagreset"] = func(args []string) int {
		for _, src := range args {
			raw, _ := json.Marshal(DagResetItem{Source: src})
			out, err := explore.Call("dagreset", raw)
			fmt.Printf("%s: %v %.600s\n", src, err, string(out))
		}
		return 0
	}
}
