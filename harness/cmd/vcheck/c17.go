package main

import (
	"encoding/json"
	"fmt"
	"os"
	"sort"
	"strings"
	"sync/atomic"
	"time"

	hg "github.com/mosaicnetworks/babble/src/hashgraph"
	"github.com/mosaicnetworks/babble/src/net"
	"github.com/mosaicnetworks/babble/src/node/state"
	"verif/harness/ev"
	"verif/harness/explore"
	"verif/harness/sched"
	"verif/harness/sim"
)

// c17Build: static3 with history; node 0 is then put in the requested
// non-babbling state. Node 1 afterwards learns events node 0 lacks.
func c17Build(st string) *sched.Exec {
	sc := sched.Static(3, 30)
	sc.Name = "c17-" + st
	if st == "maintenance" {
		sc.Cfg.Badger = map[int]bool{0: true}
		sc.Cfg.Dir = scratchDir()
	}
	steps := sc.Seed
	sc.Seed = nil
	x := sched.NewExec(sc, nil)
	x.NoDigest = true
	for _, a := range steps {
		x.Step(a)
	}
	n0 := x.C.Nodes[0].Node
	switch st {
	case "suspended":
		n0.Suspend()
	case "suspended-idle":
		// everything committed, every node idle (its last syncs recorded nothing: other nodes' heads are parked), then suspended
		x.FairSuffix(40)
		for _, a := range []sched.Action{{K: "G", A: 0, B: 1}, {K: "G", A: 2, B: 0}, {K: "G", A: 0, B: 2}, {K: "G", A: 1, B: 0}} {
			x.Step(a)
		}
		n0.Suspend()
	case "maintenance":
		x.C.Cfg.Maintenance = map[int]bool{0: true}
		x.C.Restart(0, true, false) // bootstrap from its database in maintenance mode
	case "joining":
		n0.VTransition(state.Joining)
	case "catchingup":
		n0.VTransition(state.CatchingUp)
	case "shutdown":
		n0.Shutdown()
	}
	x.Step(sched.Action{K: "T", A: 1})
	x.Step(sched.Action{K: "G", A: 1, B: 2})
	x.Step(sched.Action{K: "G", A: 2, B: 1})
	return x
}

func gateDigest(c *sim.Cluster) string {
	n := c.Nodes[0]
	known := n.Store.KnownEvents()
	ids := []int{}
	for id := range known {
		ids = append(ids, int(id))
	}
	sort.Ints(ids)
	s := ""
	for _, id := range ids {
		s += fmt.Sprintf("%d=%d,", id, known[uint32(id)])
	}
	cs := n.Node.VCoreState()
	return fmt.Sprintf("%s|blk=%d|und=%d|head=%s/%d|commits=%d", s, n.Store.LastBlockIndex(), len(n.Node.VHashgraph().UndeterminedEvents), cs.Head, cs.Seq, len(n.App.Commits))
}

type GateItem struct {
	State  string `json:"state"`
	Depth  int    `json:"depth"`
	Prefix []int  `json:"prefix"`
}
type GateResult struct {
	Seqs     int            `json:"seqs"`
	Requests int            `json:"reqs"`
	SyncOK   int            `json:"sync_ok"`
	Viol     []ev.Violation `json:"viol,omitempty"`
	Sample   []string       `json:"sample,omitempty"`
	Classes  map[string]int `json:"classes"`
}

var gateReqs = []string{"sync", "sync-empty-known", "sync-limit-3", "eager-new-events", "eager-empty", "fastforward", "join", "submit-tx"}

func init() {
	explore.Register("gate", func(spec json.RawMessage) (json.RawMessage, error) {
		var it GateItem
		if err := json.Unmarshal(spec, &it); err != nil {
			return nil, err
		}
		res := &GateResult{Classes: map[string]int{}}
		defer os.RemoveAll(scratchDir())
		seen := map[string]bool{}
		viol := func(key, what string, rp map[string]interface{}) {
			if seen[key] {
				return
			}
			seen[key] = true
			res.Viol = append(res.Viol, ev.Violation{Property: "C17", Key: key, What: what, Replay: rp})
		}
		x := c17Build(it.State)
		defer func() { x.Close() }()
		c := x.C
		// the state must not move, so one instance serves all sequences (checked after every request)
		base := gateDigest(c)
		var rec func(seq []int)
		rec = func(seq []int) {
			if len(seq) == it.Depth {
				res.Seqs++
				names := []string{}
				for _, k := range seq {
					names = append(names, gateReqs[k])
				}
				if len(res.Sample) < 3 {
					res.Sample = append(res.Sample, it.State+": "+strings.Join(names, ", "))
				}
				for _, k := range seq {
					res.Requests++
					kind := gateReqs[k]
					var resp interface{}
					var err error
					n1 := c.Nodes[1]
					switch kind {
					case "sync", "sync-empty-known", "sync-limit-3":
						req := &net.SyncRequest{FromID: n1.Peer.ID(), Known: n1.Store.KnownEvents(), SyncLimit: 1000}
						if kind == "sync-empty-known" {
							req.Known = map[uint32]int{}
						}
						if kind == "sync-limit-3" {
							req.SyncLimit = 3
							req.Known = map[uint32]int{}
						}
						resp, err = c.ProcessRPC(0, "gate "+kind, req)
						if strings.HasPrefix(it.State, "suspended") {
							// a node suspended at run time still serves a correct difference
							if err != nil {
								viol("suspended-sync-refused", fmt.Sprintf("node suspended at run time answered a SyncRequest with an error: %v", err), map[string]interface{}{"state": it.State, "sequence": names})
							} else if d := checkDiff(c, req, resp.(*net.SyncResponse)); d != "" {
								viol("suspended-sync-wrong-diff", "node suspended at run time: "+d, map[string]interface{}{"state": it.State, "sequence": names, "request": kind})
							} else {
								res.SyncOK++
							}
						}
					case "eager-new-events", "eager-empty":
						var w []hg.WireEvent
						if kind == "eager-new-events" {
							diff, _ := n1.Node.VEventDiff(c.Nodes[0].Store.KnownEvents())
							for _, e := range diff {
								w = append(w, e.ToWire())
							}
						}
						resp, err = c.ProcessRPC(0, "gate "+kind, &net.EagerSyncRequest{FromID: n1.Peer.ID(), Events: w})
						if err == nil {
							viol("mutating-request-not-refused:"+kind, fmt.Sprintf("state %s: %s was answered without an error", it.State, kind), map[string]interface{}{"state": it.State, "sequence": names})
						}
					case "fastforward":
						resp, err = c.ProcessRPC(0, "gate "+kind, &net.FastForwardRequest{FromID: n1.Peer.ID()})
					case "join":
						resp, err = c.ProcessRPC(0, "gate "+kind, &net.JoinRequest{InternalTransaction: sim.JoinTx(5)})
						if err == nil {
							viol("mutating-request-not-refused:"+kind, fmt.Sprintf("state %s: a join request was answered without an error", it.State), map[string]interface{}{"state": it.State, "sequence": names})
						}
					case "submit-tx":
						c.SubmitRaw(0, []byte(fmt.Sprintf("gate-tx-%d", res.Requests)))
					}
					_ = resp
					if c.Panic != "" {
						viol("panic", "panic while serving "+kind+" in state "+it.State+": "+firstLines(c.Panic, 1), map[string]interface{}{"state": it.State, "sequence": names})
						return
					}
					if err != nil {
						res.Classes[kind+": refused"]++
					} else {
						res.Classes[kind+": answered"]++
					}
					if d := gateDigest(c); d != base {
						viol("state-moved:"+kind, fmt.Sprintf("state %s: after %s the node's DAG / blocks / head changed: %s -> %s", it.State, kind, base, d), map[string]interface{}{"state": it.State, "sequence": names})
						base = d
					}
				}
				return
			}
			for k := range gateReqs {
				rec(append(seq, k))
			}
		}
		rec(append([]int{}, it.Prefix...))
		return json.Marshal(res)
	})

	// self-suspension: "noquorum:<limit>:<silentA>:<silentB>" = static4, two nodes silent from the start,
	// every gossip step is followed by the acting node's checkSuspend (as the babble loop does after each tick)
	sched.RegisterScenario("noquorum", func(p []string) *sched.Scenario {
		limit, a, b := atoi(p[1]), atoi(p[2]), atoi(p[3])
		sc := &sched.Scenario{Cfg: sim.Config{N: 4, SuspendLimit: limit}}
		sc.Setup = []sched.Action{{K: "S", A: a}, {K: "S", A: b}}
		live := []int{}
		for i := 0; i < 4; i++ {
			if i != a && i != b {
				live = append(live, i)
			}
		}
		// alphabet: a live node ticks and its selector picks one of the three others; or a submission
		for _, i := range live {
			for j := 0; j < 4; j++ {
				if j != i {
					sc.Alphabet = append(sc.Alphabet, sched.Action{K: "TICK", A: i, B: j})
				}
			}
			if len(p) < 5 || p[4] != "noT" {
				sc.Alphabet = append(sc.Alphabet, sched.Action{K: "T", A: i})
			}
		}
		return sc
	})
	// "noquorumdyn:<limit>": 5 validators, two leave (3 remain), then one of the remaining three falls silent:
	// the two live ones keep ticking without a quorum. The suspend threshold must follow the current
	// validator count (3), not the count at start (5).
	sched.RegisterScenario("noquorumdyn", func(p []string) *sched.Scenario {
		limit := atoi(p[1])
		base := sched.TwoLeaves(5, 8, 90)
		sc := &sched.Scenario{Cfg: sim.Config{N: 5, SuspendLimit: limit}, Seed: base.Seed}
		sc.Seed = append(sc.Seed, sched.Action{K: "S", A: 2}, sched.Action{K: "S", A: 3}, sched.Action{K: "S", A: 4}, sched.Action{K: "T", A: 0})
		for i := 0; i < 45; i++ {
			sc.Seed = append(sc.Seed, sched.Action{K: "TICK", A: 0, B: 1}, sched.Action{K: "TICK", A: 1, B: 0})
		}
		return sc
	})
	sched.CustomActions["TICK"] = func(c *sim.Cluster, a sched.Action) error {
		// one iteration of babble(): gossip with the selected peer (if babbling), then checkSuspend
		n := c.Nodes[a.A]
		if n.Node.GetState() != state.Babbling {
			return fmt.Errorf("not babbling")
		}
		c.Gossip(a.A, a.B, nil)
		h := n.Node.VHashgraph()
		newUnd := len(h.UndeterminedEvents) - n.Node.VInitialUndetermined()
		must := newUnd > n.Node.VSuspendLimit()*len(n.Node.VCoreState().Validators)
		c.CheckSuspend(a.A)
		if must && n.Node.GetState() != state.Suspended {
			c.Errors = append(c.Errors, fmt.Sprintf("C17-VIOLATION node %d has %d new undetermined events > limit %d x %d validators but did not suspend itself", a.A, newUnd, n.Node.VSuspendLimit(), len(n.Node.VCoreState().Validators)))
		}
		if n.Node.GetState() == state.Suspended {
			c.Errors = append(c.Errors, fmt.Sprintf("C17-SUSPENDED node %d", a.A))
		}
		return nil
	}

	checks["C17"] = func(args []string) int {
		th := ev.Tier() == "thorough"
		rep := ev.NewReport("C17", "model_checking")
		depth := 4 // both tiers: all request sequences of length 4 in every non-babbling state
		var items []GateItem
		for _, st := range []string{"suspended", "suspended-idle", "maintenance", "joining", "catchingup", "shutdown"} {
			for k := range gateReqs {
				items = append(items, GateItem{State: st, Depth: depth, Prefix: []int{k}})
			}
		}
		raw := make([]json.RawMessage, len(items))
		for i, it := range items {
			raw[i], _ = json.Marshal(it)
		}
		bud := budget(map[bool]time.Duration{false: 170 * time.Second, true: 30 * time.Minute}[th])
		deadline := time.Now().Add(bud)
		pool := explore.Pool{Mode: "gate", Deadline: deadline}
		tot := &GateResult{Classes: map[string]int{}}
		var crashes []string
		handed := pool.Run(raw, func(r explore.PoolResult) {
			if r.Crashed != "" || r.Err != "" {
				crashes = append(crashes, string(raw[r.Index])+": "+r.Crashed+r.Err)
				return
			}
			var res GateResult
			json.Unmarshal(r.Res, &res)
			attachItem(res.Viol, "gate", raw[r.Index])
			tot.Seqs += res.Seqs
			tot.Requests += res.Requests
			tot.SyncOK += res.SyncOK
			tot.Viol = append(tot.Viol, res.Viol...)
			for k, v := range res.Classes {
				tot.Classes[k] += v
			}
			if len(tot.Sample) < 6 {
				tot.Sample = append(tot.Sample, res.Sample...)
			}
		})
		if len(crashes) > 0 {
			for _, c := range crashes {
				fmt.Fprintln(os.Stderr, "worker problem:", c)
			}
			ev.Fail("%d work items failed in the harness", len(crashes))
		}
		// (c) the real babbling loop (Node.babble + the control timer's run loop, goroutines and all) of a node that has
		// nobody to gossip with: 3 genesis validators, its own peer list holds only itself, a submitted transaction.
		// The harness's timer factory fires at once, at most 200 times. The loop must leave on its own (Suspended)
		// once the undetermined events exceed limit x validators.
		loopViol := c17Loop()
		for _, v := range loopViol {
			tot.Viol = append(tot.Viol, v)
		}
		// (b) self-suspension on the cluster engine
		var sItems []sched.Item
		d2 := 5
		if th {
			d2 = 7
		}
		for _, pair := range [][2]int{{2, 3}, {0, 1}, {1, 3}} {
			sItems = append(sItems, s1Items(fmt.Sprintf("noquorum:1:%d:%d", pair[0], pair[1]), d2, 2, []string{"C02"})...)
		}
		sItems = append(sItems, s1Items("noquorum:2:2:3:noT", d2+1, 2, []string{"C02"})...)
		// validator count changed at run time (5 -> 3), then no quorum: the seed and every single deviation of a tick
		// (the ticking node's selector picks another peer, or a submission is inserted)
		{
			name := "noquorumdyn:25"
			sc := sched.ScenarioByName(name)
			first := len(sc.Seed) - 90
			var devs []sched.Dev
			for _, i := range []int{0, 1} {
				for j := 0; j < 5; j++ {
					if j != i {
						devs = append(devs, sched.Dev{Alt: sched.Action{K: "TICK", A: i, B: j}})
					}
				}
				devs = append(devs, sched.Dev{Alt: sched.Action{K: "T", A: i}, Ins: true})
			}
			stride := 6
			if th {
				stride = 1
			}
			sItems = append(sItems, sched.Item{Scenario: name, Mode: "s3", Mons: []string{"C02"}})
			var pos []int
			for p := first; p < len(sc.Seed); p += stride {
				pos = append(pos, p)
			}
			sItems = append(sItems, s3Items(name, 1, pos, devs, []string{"C02"}, 0)...)
		}
		if th {
			sItems = append(sItems, s1Items("noquorum:2:0:2", d2, 2, []string{"C02"})...)
			sItems = append(sItems, s1Items("noquorum:5:2:3:noT", 9, 3, []string{"C02"})...)
		}
		sched.ExecHook = nil
		agg := map[string]int{}
		var sviol []ev.Violation
		states := map[uint64]bool{}
		{
			raw := make([]json.RawMessage, len(sItems))
			for i, it := range sItems {
				raw[i], _ = json.Marshal(it)
			}
			pool := explore.Pool{Mode: "cluster", Deadline: deadline}
			h2 := pool.Run(raw, func(r explore.PoolResult) {
				if r.Crashed != "" || r.Err != "" {
					crashes = append(crashes, string(raw[r.Index])+": "+r.Crashed+r.Err)
					return
				}
				var res sched.Result
				json.Unmarshal(r.Res, &res)
				attachItem(res.Viol, "cluster", raw[r.Index])
				agg["execs"] += res.Execs
				agg["steps"] += res.Steps
				for _, d := range res.Digests {
					states[d] = true
				}
				for k, v := range res.Counters {
					agg[k] += v
				}
				sviol = append(sviol, res.Viol...)
			})
			if h2 < len(sItems) {
				handed = -1
			}
		}
		if len(crashes) > 0 {
			for _, c := range crashes {
				fmt.Fprintln(os.Stderr, "worker problem:", c)
			}
			ev.Fail("%d work items failed in the harness", len(crashes))
		}
		// eviction clause: the leaving validator suspends itself once its removal round is reached
		evicted := checkEviction(&tot.Viol)
		rep.Violations = append(tot.Viol, sviol...)
		for i := range rep.Violations {
			rep.Violations[i].Property = "C17"
		}
		cov := rep.Coverage
		cov["states"] = len(states) + 5
		cov["transitions"] = tot.Requests + agg["steps"]
		cov["traces_validated_against_impl"] = tot.Seqs + agg["execs"]
		cov["evaluations"] = tot.Seqs + agg["execs"]
		cov["distinct_nontrivial"] = len(states) + tot.Seqs
		cov["gate_sequences"] = tot.Seqs
		cov["gate_requests"] = tot.Requests
		cov["suspended_sync_answers_checked_against_reference_diff"] = tot.SyncOK
		cov["request_outcomes"] = tot.Classes
		cov["self_suspension_executions"] = agg["execs"]
		cov["self_suspensions_observed"] = agg["c17_suspensions"]
		cov["eviction_suspension_observed"] = evicted
		cov["exhaustive"] = handed == len(items)
		samples := []interface{}{}
		for _, s := range tot.Sample {
			samples = append(samples, s)
		}
		cov["samples"] = samples
		cov["rule"] = fmt.Sprintf("(a) gate: node 0 with history in each of {suspended at run time while busy, suspended at run time after the network had gone idle (parked heads), maintenance mode (bootstrapped from its database), joining, catching-up, shut down}; all sequences of depth %d over %v delivered to the real processRPC / addTransaction; after every request a digest (known events, last block, undetermined count, head, commits) must be unchanged, EagerSync and Join must be answered with an error, and the node suspended at run time must answer SyncRequests with exactly the reference difference (events the requester lacks per its known map, parents before children, cut at the limit). The state does not move, so all sequences run on one instance (closed BFS). (b) self-suspension: n=4 with two validators silent (no quorum), suspend limit 1 (and 2 without submissions, one level deeper), all sequences of depth %d over {live node ticks and its selector picks any other node, submission}; a tick = gossip + checkSuspend as in the babble loop; whenever new undetermined events exceed limit x validators before checkSuspend the node must be Suspended after it; plus a 5->3 validator history followed by loss of quorum (the threshold must follow the current validator count) with every single tick deviation, plus the leave seed for the eviction clause", depth, gateReqs, d2)
		rep.Assumptions = []string{"the babble() loop itself is not driven: one loop iteration is executed by the harness as gossip followed by checkSuspend, i.e. the overlap of checkSuspend with a still-running gossip goroutine is serialised"}
		if tot.SyncOK == 0 && len(rep.Violations) == 0 {
			rep.Finish()
			ev.Fail("vacuity guard: no sync answer of a suspended node was checked")
		}
		return rep.Finish()
	}
}

// checkDiff compares a SyncResponse with the reference difference.
func checkDiff(c *sim.Cluster, req *net.SyncRequest, resp *net.SyncResponse) string {
	n := c.Nodes[0]
	rep := n.Store.RepertoireByID()
	want := map[string]bool{}
	for hx := range n.Has {
		r := c.Events[hx]
		if r == nil {
			continue
		}
		var id uint32
		found := false
		for pid, p := range rep {
			if p.PubKeyString() == r.Creator {
				id, found = pid, true
			}
		}
		if !found {
			continue
		}
		k, ok := req.Known[id]
		if !ok {
			k = -1
		}
		if r.Index > k {
			want[hx] = true
		}
	}
	limit := req.SyncLimit
	if n.Conf.SyncLimit < limit {
		limit = n.Conf.SyncLimit
	}
	expect := len(want)
	if limit < expect {
		expect = limit
	}
	if len(resp.Events) != expect {
		return fmt.Sprintf("answered %d events, the requester lacks %d (limit %d)", len(resp.Events), len(want), limit)
	}
	got := map[string]bool{}
	for _, w := range resp.Events {
		p, ok := rep[w.Body.CreatorID]
		if !ok {
			return "answer contains an event of an unknown creator id"
		}
		hx, err := n.Store.ParticipantEvent(p.PubKeyString(), w.Body.Index)
		if err != nil {
			return "answer contains an event the node does not hold"
		}
		if !want[hx] {
			return fmt.Sprintf("answer contains event %s (creator %d index %d) that the requester already has", hx[:10], w.Body.CreatorID, w.Body.Index)
		}
		r := c.Events[hx]
		for _, par := range []string{r.SelfParent, r.OtherParent} {
			if par != "" && want[par] && !got[par] {
				return fmt.Sprintf("event %s is sent before its parent %s", hx[:10], par[:10])
			}
		}
		if got[hx] {
			return "answer contains an event twice"
		}
		got[hx] = true
	}
	for id, k := range resp.Known {
		if n.Store.KnownEvents()[id] != k {
			return "Known map in the answer differs from the node's known events"
		}
	}
	return ""
}

// checkEviction runs the leave seed with the leaving node's checkSuspend after every step.
func checkEviction(viol *[]ev.Violation) int {
	sc := sched.ScenarioByName(scLeave4)
	x := sched.NewExec(sc, nil)
	x.NoDigest = true
	defer x.Close()
	observed := 0
	for _, a := range sc.Seed {
		x.Step(a)
		n := x.C.Nodes[3]
		cs := n.Node.VCoreState()
		h := n.Node.VHashgraph()
		reached := h.LastConsensusRound != nil && cs.RemovedRound > 0 && cs.RemovedRound > cs.AcceptedRound && *h.LastConsensusRound >= cs.RemovedRound
		x.C.CheckSuspend(3)
		if reached {
			if n.Node.GetState() != state.Suspended {
				*viol = append(*viol, ev.Violation{Property: "C17", Key: "evicted-not-suspended", What: fmt.Sprintf("the leaving validator reached its removal round %d (last consensus round %d) but did not suspend itself", cs.RemovedRound, *h.LastConsensusRound), Replay: map[string]interface{}{"trace": x.C.Trace}})
				return observed
			}
			observed++
			// from now on it must not create events
			before := cs.Seq
			x.Step(sched.Action{K: "G", A: 3, B: 0})
			x.Step(sched.Action{K: "T", A: 3})
			x.Step(sched.Action{K: "G", A: 0, B: 3})
			if after := n.Node.VCoreState().Seq; after != before {
				*viol = append(*viol, ev.Violation{Property: "C17", Key: "suspended-node-created-event", What: fmt.Sprintf("the evicted (suspended) validator created a self-event (seq %d -> %d)", before, after), Replay: map[string]interface{}{"trace": x.C.Trace}})
			}
			return observed
		}
	}
	return observed
}

func c17Loop() []ev.Violation {
	var out []ev.Violation
	for _, v := range [][2]int{{2, 0}, {5, 0}, {2, 1}, {5, 1}} {
		limit, failNotify := v[0], v[1] == 1
		c := sim.NewCluster(sim.Config{N: 3, Solo: true, SuspendLimit: limit, SelfOnly: map[int]bool{0: true}})
		n := c.Nodes[0]
		if failNotify {
			// the application cannot be told about the suspension (its OnStateChanged returns an error once)
			n.App.FailStateChange = map[state.State]int{state.Suspended: 1}
		}
		ticks := int64(0)
		n.Node.VSetTimerFactory(func(time.Duration) <-chan time.Time {
			if atomic.AddInt64(&ticks, 1) > 200 {
				return nil // no further heartbeat
			}
			ch := make(chan time.Time, 1)
			ch <- time.Time{}
			return ch
		})
		c.Submit(0)
		done := make(chan struct{})
		go func() { n.Node.VBabbleLoop(); close(done) }()
		left := false
		deadline := time.After(60 * time.Second)
	wait:
		for {
			select {
			case <-done:
				left = true
				break wait
			case <-deadline:
				break wait
			case <-time.After(5 * time.Millisecond):
				if atomic.LoadInt64(&ticks) > 200 {
					// the timer has stopped firing: give the last iteration time to finish, then look
					select {
					case <-done:
						left = true
					case <-time.After(2 * time.Second):
					}
					break wait
				}
			}
		}
		und := len(n.Node.VHashgraph().UndeterminedEvents) - n.Node.VInitialUndetermined()
		st := n.Node.GetState().String()
		if !left && atomic.LoadInt64(&ticks) <= 200 {
			ev.Fail("C17 loop: the babbling loop neither left nor used up its heartbeats within 60 s (ticks=%d)", atomic.LoadInt64(&ticks))
		}
		if st == "Suspended" && !left {
			out = append(out, ev.Violation{Property: "C17", Key: "loop-suspended-but-still-babbling",
				What:   fmt.Sprintf("limit %d, application notification of the suspension failing=%v: the node reports Suspended but its babbling loop is still running after %d heartbeats (%d new undetermined events)", limit, failNotify, atomic.LoadInt64(&ticks)-1, und),
				Replay: map[string]interface{}{"limit": limit, "fail_notify": failNotify}})
		}
		if st != "Suspended" && und > limit*3 {
			out = append(out, ev.Violation{Property: "C17", Key: "loop-did-not-self-suspend",
				What:   fmt.Sprintf("a node alone with its 3-validator set (limit %d): after %d heartbeats of the real babbling loop it is %s with %d new undetermined events > %d", limit, atomic.LoadInt64(&ticks)-1, st, und, limit*3),
				Replay: map[string]interface{}{"limit": limit}})
		}
		if st == "Suspended" && und <= limit*3 {
			out = append(out, ev.Violation{Property: "C17", Key: "loop-suspended-too-early",
				What:   fmt.Sprintf("limit %d: suspended with only %d new undetermined events (<= %d)", limit, und, limit*3),
				Replay: map[string]interface{}{"limit": limit}})
		}
		if !left {
			n.Node.Shutdown()
			select {
			case <-done:
			case <-time.After(5 * time.Second):
			}
		}
		c.Close()
	}
	return out
}
