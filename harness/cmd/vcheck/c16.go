package main

import (
	"bytes"
	"encoding/json"
	"fmt"
	"os"
	"path/filepath"
	"sort"
	"strings"
	"time"

	hg "github.com/mosaicnetworks/babble/src/hashgraph"
	"github.com/mosaicnetworks/babble/src/peers"
	"verif/harness/ev"
	"verif/harness/explore"
	"verif/harness/sched"
	"verif/harness/sim"
)

// ---------------------------------------------------------------------------
// recorded store operations

type StoreOp struct {
	K     string          `json:"k"` // event round block frame peerset consensus reopen
	Data  json.RawMessage `json:"d,omitempty"`
	Round int             `json:"r,omitempty"`
	Peers []*peers.Peer   `json:"p,omitempty"`
}

// recStore records the write calls of a node's store (values snapshotted in
// their persisted representation at call time).
type recStore struct {
	hg.Store
	ops *[]StoreOp
}

func (s *recStore) SetEvent(e *hg.Event) error {
	raw, _ := e.MarshalDB()
	*s.ops = append(*s.ops, StoreOp{K: "event", Data: raw})
	return s.Store.SetEvent(e)
}
func (s *recStore) SetRound(r int, ri *hg.RoundInfo) error {
	raw, _ := ri.Marshal()
	*s.ops = append(*s.ops, StoreOp{K: "round", Round: r, Data: jsonWrap(raw)})
	return s.Store.SetRound(r, ri)
}
func (s *recStore) SetBlock(b *hg.Block) error {
	raw, _ := b.Marshal()
	*s.ops = append(*s.ops, StoreOp{K: "block", Data: jsonWrap(raw)})
	return s.Store.SetBlock(b)
}
func (s *recStore) SetFrame(f *hg.Frame) error {
	raw, _ := f.Marshal()
	*s.ops = append(*s.ops, StoreOp{K: "frame", Data: jsonWrap(raw)})
	return s.Store.SetFrame(f)
}
func (s *recStore) SetPeerSet(r int, ps *peers.PeerSet) error {
	*s.ops = append(*s.ops, StoreOp{K: "peerset", Round: r, Peers: ps.Peers})
	return s.Store.SetPeerSet(r, ps)
}

func (s *recStore) Reset(f *hg.Frame) error {
	raw, _ := f.Marshal()
	*s.ops = append(*s.ops, StoreOp{K: "reset", Data: jsonWrap(raw)})
	return s.Store.Reset(f)
}

func jsonWrap(raw []byte) json.RawMessage { return json.RawMessage(bytes.TrimSpace(raw)) }

// ---------------------------------------------------------------------------
// model

type storeModel struct {
	events     map[string][]byte   // hex → persisted JSON
	evOrder    []string            // first-store order
	part       map[string][]string // creator → hashes by index
	partIdx    map[string]map[int]string
	topo       map[int]string
	rounds     map[int][]byte
	blocks     map[int][]byte
	frames     map[int][]byte
	peersets   map[int][]string
	reper      map[string]bool
	lastBlk    int
	roots      map[string][]byte // participant → persisted root (set by Reset; empty root for participants added by SetPeerSet)
	reset      bool              // the store was reset from a frame (listings are no longer complete by design)
	resetKnown bool
}

func newModel() *storeModel {
	return &storeModel{events: map[string][]byte{}, part: map[string][]string{}, partIdx: map[string]map[int]string{}, topo: map[int]string{},
		rounds: map[int][]byte{}, blocks: map[int][]byte{}, frames: map[int][]byte{}, peersets: map[int][]string{}, reper: map[string]bool{}, lastBlk: -1, roots: map[string][]byte{}}
}

type wrapperView struct {
	Body             hg.EventBody
	TopologicalIndex int
}

func canon(raw []byte) string {
	var v interface{}
	if err := json.Unmarshal(raw, &v); err != nil {
		return "!" + string(raw)
	}
	out, _ := json.Marshal(v)
	return string(out)
}

// applyOp applies op to the real store and to the model.
func applyOp(st hg.Store, m *storeModel, op StoreOp) error {
	switch op.K {
	case "event":
		e := new(hg.Event)
		if err := e.UnmarshalDB(op.Data); err != nil {
			return fmt.Errorf("harness: bad recorded event: %v", err)
		}
		if err := st.SetEvent(e); err != nil {
			return fmt.Errorf("SetEvent: %v", err)
		}
		hx := e.Hex()
		if _, ok := m.events[hx]; !ok {
			var w wrapperView
			json.Unmarshal(op.Data, &w)
			m.evOrder = append(m.evOrder, hx)
			c := e.Creator()
			if m.partIdx[c] == nil {
				m.partIdx[c] = map[int]string{}
			}
			m.partIdx[c][e.Index()] = hx
			m.topo[w.TopologicalIndex] = hx
		}
		m.events[hx] = op.Data
	case "round":
		ri := new(hg.RoundInfo)
		if err := ri.Unmarshal(op.Data); err != nil {
			return fmt.Errorf("harness: bad recorded round: %v", err)
		}
		if err := st.SetRound(op.Round, ri); err != nil {
			return fmt.Errorf("SetRound: %v", err)
		}
		m.rounds[op.Round] = op.Data
	case "block":
		b := new(hg.Block)
		if err := b.Unmarshal(op.Data); err != nil {
			return fmt.Errorf("harness: bad recorded block: %v", err)
		}
		if err := st.SetBlock(b); err != nil {
			return fmt.Errorf("SetBlock: %v", err)
		}
		m.blocks[b.Index()] = op.Data
		if b.Index() > m.lastBlk {
			m.lastBlk = b.Index()
		}
	case "frame":
		f := new(hg.Frame)
		if err := f.Unmarshal(op.Data); err != nil {
			return fmt.Errorf("harness: bad recorded frame: %v", err)
		}
		if err := st.SetFrame(f); err != nil {
			return fmt.Errorf("SetFrame: %v", err)
		}
		m.frames[f.Round] = op.Data
	case "reset":
		f := new(hg.Frame)
		if err := f.Unmarshal(op.Data); err != nil {
			return fmt.Errorf("harness: bad recorded frame: %v", err)
		}
		if err := st.Reset(f); err != nil {
			return fmt.Errorf("Reset: %v", err)
		}
		m.reset = true
		m.frames[f.Round] = op.Data
		ks := []string{}
		for _, p := range f.Peers {
			ks = append(ks, p.PubKeyString())
		}
		m.peersets[f.Round] = ks
		for p, r := range f.Roots {
			raw, _ := r.Marshal()
			m.roots[p] = raw
		}
		// in-memory caches start afresh
		m.partIdx = map[string]map[int]string{}
		m.resetKnown = true
	case "peerset":
		cp := make([]*peers.Peer, len(op.Peers))
		ks := []string{}
		for i, p := range op.Peers {
			cp[i] = peers.NewPeer(p.PubKeyHex, p.NetAddr, p.Moniker)
			ks = append(ks, p.PubKeyString())
			m.reper[p.PubKeyString()] = true
			if _, ok := m.roots[p.PubKeyString()]; !ok {
				raw, _ := hg.NewRoot().Marshal()
				m.roots[p.PubKeyString()] = raw
			}
		}
		if err := st.SetPeerSet(op.Round, peers.NewPeerSet(cp)); err != nil {
			return fmt.Errorf("SetPeerSet: %v", err)
		}
		m.peersets[op.Round] = ks
	}
	return nil
}

// battery compares every read with the model. durableOnly: the store was just
// reopened (caches empty, no bootstrap), only database-backed reads are defined.
func battery(st *hg.BadgerStore, m *storeModel, durableOnly bool, reads *int) string {
	for hx, want := range m.events {
		*reads++
		e, err := st.GetEvent(hx)
		if err != nil {
			return fmt.Sprintf("GetEvent(%s): %v", hx[:10], err)
		}
		got, _ := e.MarshalDB()
		if canon(got) != canon(want) {
			return fmt.Sprintf("GetEvent(%s) = %s, stored %s", hx[:10], trunc(canon(got)), trunc(canon(want)))
		}
		*reads++
		de, err := st.VDbGetEvent(hx)
		if err != nil {
			return fmt.Sprintf("database copy of event %s: %v", hx[:10], err)
		}
		got, _ = de.MarshalDB()
		if canon(got) != canon(want) {
			return fmt.Sprintf("database copy of event %s = %s, stored %s", hx[:10], trunc(canon(got)), trunc(canon(want)))
		}
	}
	for c, byIdx := range m.partIdx {
		max := -1
		for i := range byIdx {
			if i > max {
				max = i
			}
		}
		// gap-free listing in the model?
		full := []string{}
		for i := 0; i <= max; i++ {
			h, ok := byIdx[i]
			if !ok {
				break
			}
			full = append(full, h)
		}
		for _, skip := range []int{-1, 0, max / 2, max - 1, max} {
			if skip < -1 || m.reset {
				continue // (after a reset from a frame the listings do not start at index 0: outside the clause)
			}
			*reads++
			got, err := st.ParticipantEvents(c, skip)
			if err != nil {
				return fmt.Sprintf("ParticipantEvents(%s…, %d): %v", c[:8], skip, err)
			}
			var want []string
			if skip+1 <= len(full) {
				want = full[skip+1:]
			}
			if strings.Join(got, ",") != strings.Join(want, ",") {
				return fmt.Sprintf("ParticipantEvents(%s…, %d) has %d entries, expected %d (every stored event once, in order, no gaps)", c[:8], skip, len(got), len(want))
			}
		}
		if m.reset {
			full = nil
			for i, h := range byIdx {
				*reads++
				got, err := st.ParticipantEvent(c, i)
				if err != nil || got != h {
					return fmt.Sprintf("ParticipantEvent(%s…, %d) = %q / %v, expected %s", c[:8], i, got, err, h[:10])
				}
			}
		}
		for i, h := range full {
			*reads++
			got, err := st.ParticipantEvent(c, i)
			if err != nil || got != h {
				return fmt.Sprintf("ParticipantEvent(%s…, %d) = %q / %v, expected %s", c[:8], i, got, err, h[:10])
			}
			*reads++
			got, err = st.VDbParticipantEvent(c, i)
			if err != nil || got != h {
				return fmt.Sprintf("database participant entry (%s…, %d) = %q / %v, expected %s", c[:8], i, got, err, h[:10])
			}
		}
		if !durableOnly && len(full) > 0 {
			*reads++
			last, err := st.LastEventFrom(c)
			if err != nil || last != full[len(full)-1] {
				return fmt.Sprintf("LastEventFrom(%s…) = %q / %v, expected %s", c[:8], last, err, full[len(full)-1][:10])
			}
		}
	}
	if !durableOnly && !m.reset {
		known := st.KnownEvents()
		rep := st.RepertoireByPubKey()
		for c, byIdx := range m.partIdx {
			max := -1
			for i := range byIdx {
				if i > max {
					max = i
				}
			}
			p, ok := rep[c]
			if !ok {
				return fmt.Sprintf("repertoire lacks %s…", c[:8])
			}
			*reads++
			if known[p.ID()] != max {
				return fmt.Sprintf("KnownEvents[%s…] = %d, expected %d", c[:8], known[p.ID()], max)
			}
		}
	}
	if !m.reset {
		if d := func() string {
			// topological listing: every stored event exactly once, in order, no gaps (stores that were not reset)
			idxs := []int{}
			for i := range m.topo {
				idxs = append(idxs, i)
			}
			sort.Ints(idxs)
			*reads++
			tl, err := st.VDbTopologicalEvents(0, len(idxs)+10)
			if err != nil {
				return fmt.Sprintf("topological listing: %v", err)
			}
			if len(tl) != len(idxs) {
				return fmt.Sprintf("topological listing has %d events, %d were stored (gap at the first missing index)", len(tl), len(idxs))
			}
			for k, e := range tl {
				if e.Hex() != m.topo[idxs[k]] {
					return fmt.Sprintf("topological listing position %d holds %s, expected %s", k, e.Hex()[:10], m.topo[idxs[k]][:10])
				}
			}
			return ""
		}(); d != "" {
			return d
		}
	}
	for r, want := range m.rounds {
		*reads++
		ri, err := st.VDbGetRound(r)
		if err != nil {
			return fmt.Sprintf("database round %d: %v", r, err)
		}
		got, _ := ri.Marshal()
		if canon(got) != canon(want) {
			return fmt.Sprintf("database round %d = %s, stored %s", r, trunc(canon(got)), trunc(canon(want)))
		}
	}
	for i, want := range m.blocks {
		*reads++
		b, err := st.GetBlock(i)
		if err != nil {
			return fmt.Sprintf("GetBlock(%d): %v", i, err)
		}
		got, _ := b.Marshal()
		if canon(got) != canon(want) {
			return fmt.Sprintf("GetBlock(%d) = %s, stored %s", i, trunc(canon(got)), trunc(canon(want)))
		}
		*reads++
		db, err := st.VDbGetBlock(i)
		if err != nil {
			return fmt.Sprintf("database block %d: %v", i, err)
		}
		got, _ = db.Marshal()
		if canon(got) != canon(want) {
			return fmt.Sprintf("database block %d = %s, stored %s", i, trunc(canon(got)), trunc(canon(want)))
		}
	}
	if !durableOnly && st.LastBlockIndex() != m.lastBlk {
		return fmt.Sprintf("LastBlockIndex = %d, expected %d", st.LastBlockIndex(), m.lastBlk)
	}
	for r, want := range m.frames {
		*reads++
		f, err := st.VDbGetFrame(r)
		if err != nil {
			return fmt.Sprintf("database frame %d: %v", r, err)
		}
		got, _ := f.Marshal()
		if canon(got) != canon(want) {
			return fmt.Sprintf("database frame %d differs from what was stored", r)
		}
	}
	for r, want := range m.peersets {
		*reads++
		ps, err := st.VDbGetPeerSet(r)
		if err != nil {
			return fmt.Sprintf("database peer-set %d: %v", r, err)
		}
		if strings.Join(ps.PubKeys(), ",") != strings.Join(want, ",") {
			return fmt.Sprintf("database peer-set %d = %v, stored %v", r, ps.PubKeys(), want)
		}
	}
	rep, err := st.VDbGetRepertoire()
	if err != nil {
		return fmt.Sprintf("database repertoire: %v", err)
	}
	for k := range m.reper {
		*reads++
		if _, ok := rep[k]; !ok {
			return fmt.Sprintf("database repertoire lacks %s…", k[:8])
		}
		r, err := st.GetRoot(k)
		if err != nil {
			return fmt.Sprintf("GetRoot(%s…): %v", k[:8], err)
		}
		if want, ok := m.roots[k]; ok {
			if got, _ := r.Marshal(); canon(got) != canon(want) {
				return fmt.Sprintf("GetRoot(%s…) has %d events, the root that was stored has %d", k[:8], len(r.Events), rootLen(want))
			}
			dr, err := st.VDbGetRoot(k)
			if err != nil {
				return fmt.Sprintf("database root of %s…: %v", k[:8], err)
			}
			if got, _ := dr.Marshal(); canon(got) != canon(want) {
				return fmt.Sprintf("database root of %s… has %d events, the root that was stored has %d", k[:8], len(dr.Events), rootLen(want))
			}
		}
	}
	return ""
}

func rootLen(raw []byte) int {
	r := new(hg.Root)
	if err := r.Unmarshal(raw); err != nil {
		return -1
	}
	return len(r.Events)
}

func trunc(s string) string {
	if len(s) > 160 {
		return s[:160] + "…"
	}
	return s
}

// ---------------------------------------------------------------------------

type StoreItem struct {
	Mode   string `json:"mode"` // replay | reopen | direct
	Source string `json:"src"`
	Cache  int    `json:"cache"`
	From   int    `json:"from"`
	To     int    `json:"to"`
	Depth  int    `json:"depth"`
	Prefix []int  `json:"prefix"`
}

type StoreResult struct {
	Seqs   int            `json:"seqs"`
	Ops    int            `json:"ops"`
	Reads  int            `json:"reads"`
	Viol   []ev.Violation `json:"viol,omitempty"`
	Sample []string       `json:"sample,omitempty"`
	States []string       `json:"states,omitempty"`
	Ctr    map[string]int `json:"ctr"`
}

func recordOps(source string) []StoreOp {
	node := 0
	if i := strings.Index(source, "@"); i > 0 && strings.HasPrefix(source, "node") {
		node = atoi(source[4:i])
		source = source[i+1:]
	}
	sc := sched.ScenarioByName(source)
	var ops []StoreOp
	sc.Cfg.WrapStore = func(idx int, s hg.Store) hg.Store {
		if idx != node {
			return s
		}
		return &recStore{Store: s, ops: &ops}
	}
	x := sched.NewExec(sc, nil)
	x.NoDigest = true
	for _, a := range sc.Seed {
		x.Step(a)
	}
	x.Close()
	return ops
}

func describeOps(ops []StoreOp, n int) []string {
	var out []string
	for i, o := range ops {
		if i >= n {
			out = append(out, fmt.Sprintf("… %d more", len(ops)-n))
			break
		}
		out = append(out, fmt.Sprintf("%s r=%d %s", o.K, o.Round, trunc(string(o.Data))))
	}
	return out
}

// direct alphabet ------------------------------------------------------------

type directState struct {
	evs     map[int][]*hg.Event // participant → events
	topo    int
	sigs    int
	rounds  int
	frames  int
	updates int
}

func directOps(k int, ds *directState) (StoreOp, bool) {
	pub := func(p int) []byte { return sim.PubOf(p) }
	mkEvent := func(p int) StoreOp {
		l := ds.evs[p]
		self := ""
		if len(l) > 0 {
			self = l[len(l)-1].Hex()
		}
		other := ""
		if o := ds.evs[1-p]; len(o) > 0 {
			other = o[len(o)-1].Hex()
		}
		e := hg.NewEvent([][]byte{[]byte(fmt.Sprintf("t%d", ds.topo))}, nil, nil, []string{self, other}, pub(p), len(l))
		e.Body.Timestamp = sim.BaseTime + int64(ds.topo)
		e.Sign(sim.Key(p))
		e.VSetTopologicalIndex(ds.topo)
		ds.topo++
		ds.evs[p] = append(ds.evs[p], e)
		raw, _ := e.MarshalDB()
		return StoreOp{K: "event", Data: raw}
	}
	switch k {
	case 0:
		return mkEvent(0), true
	case 1:
		return mkEvent(1), true
	case 2: // update the last event of participant 0 (coordinates change as descendants arrive)
		l := ds.evs[0]
		if len(l) == 0 {
			return StoreOp{}, false
		}
		e := l[len(l)-1]
		raw, _ := e.MarshalDB()
		var m map[string]interface{}
		json.Unmarshal(raw, &m)
		ds.updates++
		m["FirstDescendants"] = map[string]interface{}{fmt.Sprintf("upd%d", ds.updates): map[string]interface{}{"Hash": "x", "Index": ds.updates}}
		raw, _ = json.Marshal(m)
		return StoreOp{K: "event", Data: raw}, true
	case 3, 4: // block 0 / block 1 with a growing signature set
		idx := k - 3
		b := hg.NewBlock(idx, idx+1, []byte("fh"), []*peers.Peer{peers.NewPeer(sim.PubHex(0), "", ""), peers.NewPeer(sim.PubHex(1), "", "")}, [][]byte{[]byte("tx")}, nil, 7)
		ds.sigs++
		for s := 0; s < ds.sigs && s < 2; s++ {
			bs, _ := b.Sign(sim.Key(s))
			b.SetSignature(bs)
		}
		b.Body.StateHash = []byte{byte(ds.sigs)}
		raw, _ := b.Marshal()
		return StoreOp{K: "block", Data: jsonWrap(raw)}, true
	case 5: // round 0 set / updated
		ri := hg.NewRoundInfo()
		ds.rounds++
		for i := 0; i < ds.rounds; i++ {
			ri.AddCreatedEvent(fmt.Sprintf("0X%02d", i), i%2 == 0)
		}
		ri.AddReceivedEvent("0X00")
		raw, _ := ri.Marshal()
		return StoreOp{K: "round", Round: 0, Data: jsonWrap(raw)}, true
	case 6: // frame
		ds.frames++
		f := &hg.Frame{Round: 1, Peers: []*peers.Peer{peers.NewPeer(sim.PubHex(0), "a", "m")}, Roots: map[string]*hg.Root{sim.PubHex(0): hg.NewRoot()}, Events: []*hg.FrameEvent{}, PeerSets: map[int][]*peers.Peer{0: {peers.NewPeer(sim.PubHex(0), "a", "m")}}, Timestamp: int64(ds.frames)}
		raw, _ := f.Marshal()
		return StoreOp{K: "frame", Data: jsonWrap(raw)}, true
	case 7:
		return StoreOp{K: "reopen"}, true
	}
	return StoreOp{}, false
}

func init() {
	explore.Register("store", func(spec json.RawMessage) (json.RawMessage, error) {
		var it StoreItem
		if err := json.Unmarshal(spec, &it); err != nil {
			return nil, err
		}
		res := &StoreResult{Ctr: map[string]int{}}
		dir := filepath.Join(scratchDir(), "store")
		defer os.RemoveAll(scratchDir())
		seen := map[string]bool{}
		viol := func(key, what string, rp map[string]interface{}) {
			if seen[key] {
				return
			}
			seen[key] = true
			res.Viol = append(res.Viol, ev.Violation{Property: "C16", Key: key, What: what, Replay: rp})
		}
		open := func() *hg.BadgerStore {
			st, err := hg.NewBadgerStore(it.Cache, dir, false, quietBadger())
			if err != nil {
				ev.Fail("cannot open badger store: %v", err)
			}
			return st
		}
		switch it.Mode {
		case "long":
			// one participant with a long history (it.Depth events), one with 40, a cache far smaller: per-participant
			// listings from many starting points (through the store and straight from the database), live and after a
			// reopen, against a slice; every stored event once, in order, no gaps
			st := open()
			ps := peers.NewPeerSet([]*peers.Peer{peers.NewPeer(sim.PubHex(0), "a0", "m0"), peers.NewPeer(sim.PubHex(1), "a1", "m1")})
			if err := st.SetPeerSet(0, ps); err != nil {
				ev.Fail("long: SetPeerSet: %v", err)
			}
			model := map[int][]string{}
			topo := 0
			add := func(p int) {
				sp := ""
				if l := model[p]; len(l) > 0 {
					sp = l[len(l)-1]
				}
				e := hg.NewEvent(nil, nil, nil, []string{sp, ""}, sim.PubOf(p), len(model[p]))
				e.Body.Timestamp = sim.BaseTime + int64(topo)
				e.Sign(sim.Key(p))
				e.VSetTopologicalIndex(topo)
				topo++
				if err := st.SetEvent(e); err != nil {
					ev.Fail("long: SetEvent: %v", err)
				}
				model[p] = append(model[p], e.Hex())
				res.Ops++
			}
			for i := 0; i < it.Depth; i++ {
				add(0)
				if i < 40 {
					add(1)
				}
			}
			compare := func(tag string, bs *hg.BadgerStore) {
				for p := 0; p < 2; p++ {
					want := model[p]
					for _, skip := range []int{-1, 0, 1, 100, 511, 512, 513, 600, 1023, 1024, 1025, len(want) - 12, len(want) - 2} {
						if skip >= len(want) || skip < -1 {
							continue
						}
						for _, via := range []string{"store", "database"} {
							var got []string
							var err error
							if via == "store" {
								got, err = bs.ParticipantEvents(sim.PubHex(p), skip)
							} else {
								got, err = bs.VDbParticipantEvents(sim.PubHex(p), skip)
							}
							res.Reads++
							if err != nil {
								if via == "store" {
									viol("long:listing-error", fmt.Sprintf("%s: ParticipantEvents(participant %d, skip %d) with %d stored events: %v", tag, p, skip, len(want), err), map[string]interface{}{"mode": "long"})
								}
								continue
							}
							exp := want[skip+1:]
							ok := len(got) == len(exp)
							for i := 0; ok && i < len(exp); i++ {
								ok = got[i] == exp[i]
							}
							if !ok {
								first := 0
								for first < len(got) && first < len(exp) && got[first] == exp[first] {
									first++
								}
								viol("long:listing-differs", fmt.Sprintf("%s: listing of participant %d from index %d read through the %s has %d entries, %d events are stored after that index; first difference at position %d", tag, p, skip+1, via, len(got), len(exp), first), map[string]interface{}{"mode": "long", "skip": skip})
							}
						}
					}
				}
			}
			compare("live", st)
			st.Close()
			st2, err := hg.NewBadgerStore(it.Cache, dir, false, quietBadger())
			if err != nil {
				ev.Fail("long: reopen: %v", err)
			}
			compare("after close + reopen", st2)
			st2.Close()
			res.Seqs++
		case "live":
			// a real node on a BadgerStore with the default cache (nothing is evicted): after every tenth step and at
			// the end, the database copy of every event the node knows must be the persisted form of the object the
			// node works with (body, signature, wire information, topological index, ancestor / descendant coordinates)
			sc := sched.ScenarioByName(it.Source)
			sc.Cfg.Badger = map[int]bool{0: true}
			sc.Cfg.Dir = scratchDir()
			x := sched.NewExec(sc, nil)
			x.NoDigest = true
			var compare func(step int)
			compare = func(step int) {
				n0 := x.C.Nodes[0]
				bs, ok := n0.Store.(*hg.BadgerStore)
				if !ok || n0.Down {
					return
				}
				rep := bs.RepertoireByID()
				for id, last := range bs.KnownEvents() {
					p, ok := rep[id]
					if !ok {
						continue
					}
					for i := 0; i <= last; i++ {
						hx, err := bs.ParticipantEvent(p.PubKeyString(), i)
						if err != nil {
							continue
						}
						ce, err := bs.VInmem().GetEvent(hx)
						if err != nil {
							continue // evicted: nothing to compare with
						}
						de, err := bs.VDbGetEvent(hx)
						res.Reads++
						if err != nil {
							viol("live:event-not-in-database", fmt.Sprintf("%s step %d: event %s (participant %d index %d) is in the node's cache but not in its database: %v", it.Source, step, hx[:10], id, i, err), map[string]interface{}{"source": it.Source, "step": step})
							continue
						}
						a, _ := ce.MarshalDB()
						b, _ := de.MarshalDB()
						if string(a) != string(b) {
							viol("live:database-copy-stale", fmt.Sprintf("%s step %d: the database copy of event %s (participant %d index %d) is not the persisted form of the event the node holds: %s", it.Source, step, hx[:10], id, i, firstDiff(string(a), string(b))), map[string]interface{}{"source": it.Source, "step": step})
						}
					}
				}
			}
			// blocks are updated in place as well (state hash and receipts after the application's answer, signatures as
			// they are gossiped): the database copy of every block must be the block the node holds and reports
			cmpEvents := compare
			compare = func(step int) {
				cmpEvents(step)
				n0 := x.C.Nodes[0]
				bs, ok := n0.Store.(*hg.BadgerStore)
				if !ok || n0.Down {
					return
				}
				for i := 0; i <= bs.LastBlockIndex(); i++ {
					cb, err := bs.VInmem().GetBlock(i)
					if err != nil {
						continue // evicted, or below a fast-sync anchor
					}
					db, err := bs.VDbGetBlock(i)
					res.Reads++
					if err != nil {
						viol("live:block-not-in-database", fmt.Sprintf("%s step %d: block %d is in the node's cache but not in its database: %v", it.Source, step, i, err), map[string]interface{}{"source": it.Source, "step": step})
						continue
					}
					a, _ := json.Marshal(cb)
					b, _ := json.Marshal(db)
					if string(a) != string(b) {
						viol("live:database-block-stale", fmt.Sprintf("%s step %d: the database copy of block %d is not the block the node holds: %s", it.Source, step, i, firstDiff(string(a), string(b))), map[string]interface{}{"source": it.Source, "step": step})
					}
				}
				// rounds (created events with their fame, received events) are updated in place too
				for r := 0; r <= bs.LastRound(); r++ {
					cr, err := bs.VInmem().GetRound(r)
					if err != nil {
						continue
					}
					dr, err := bs.VDbGetRound(r)
					res.Reads++
					if err != nil {
						viol("live:round-not-in-database", fmt.Sprintf("%s step %d: round %d is in the node's cache but not in its database: %v", it.Source, step, r, err), map[string]interface{}{"source": it.Source, "step": step})
						continue
					}
					a, _ := json.Marshal(cr)
					b, _ := json.Marshal(dr)
					if string(a) != string(b) {
						viol("live:database-round-stale", fmt.Sprintf("%s step %d: the database copy of round %d is not the round the node holds: %s", it.Source, step, r, firstDiff(string(a), string(b))), map[string]interface{}{"source": it.Source, "step": step})
					}
				}
			}
			for k, a := range sc.Seed {
				x.Step(a)
				if k%10 == 9 {
					compare(k)
				}
			}
			x.FairSuffix(40)
			compare(len(sc.Seed))
			res.Seqs++
			x.Close()
		case "replay":
			ops := recordOps(it.Source)
			os.RemoveAll(dir)
			st := open()
			m := newModel()
			res.Seqs++
			for i, op := range ops {
				if err := applyOp(st, m, op); err != nil {
					viol("write-failed", fmt.Sprintf("%s cache %d: write %d (%s) failed: %v", it.Source, it.Cache, i, op.K, err), map[string]interface{}{"source": it.Source, "cache": it.Cache, "position": i})
					break
				}
				res.Ops++
				// full battery is quadratic; run it after every write for the first 60 and then every 7th write and at the end
				if i < 60 || i%7 == 0 || i == len(ops)-1 {
					if d := battery(st, m, false, &res.Reads); d != "" {
						viol("read-differs:"+strings.SplitN(d, "(", 2)[0], fmt.Sprintf("%s cache %d after write %d (%s): %s", it.Source, it.Cache, i, op.K, d), map[string]interface{}{"source": it.Source, "cache": it.Cache, "position": i})
						break
					}
				}
			}
			res.Sample = describeOps(ops, 6)
			res.Ctr["recorded_ops"] = len(ops)
			res.Ctr["events_in_model"] = len(m.events)
			res.Ctr["blocks_in_model"] = len(m.blocks)
			st.Close()
		case "reopen":
			ops := recordOps(it.Source)
			if it.To > len(ops) {
				it.To = len(ops)
			}
			for p := it.From; p < it.To; p++ {
				os.RemoveAll(dir)
				st := open()
				m := newModel()
				res.Seqs++
				bad := false
				for i := 0; i <= p; i++ {
					if err := applyOp(st, m, ops[i]); err != nil {
						bad = true
						break
					}
					res.Ops++
				}
				if bad {
					st.Close()
					continue
				}
				if err := st.Close(); err != nil {
					viol("close-failed", fmt.Sprintf("%s: close after write %d: %v", it.Source, p, err), map[string]interface{}{"source": it.Source, "position": p})
					continue
				}
				st = open()
				if d := battery(st, m, true, &res.Reads); d != "" {
					viol("after-reopen:"+strings.SplitN(d, "(", 2)[0], fmt.Sprintf("%s cache %d: closed and reopened after write %d (%s): %s", it.Source, it.Cache, p, ops[p].K, d), map[string]interface{}{"source": it.Source, "cache": it.Cache, "position": p})
				}
				st.Close()
			}
		case "direct":
			// all sequences over the direct alphabet below the given prefix
			var rec func(seq []int)
			rec = func(seq []int) {
				if len(seq) == it.Depth {
					os.RemoveAll(dir)
					st := open()
					m := newModel()
					ds := &directState{evs: map[int][]*hg.Event{}}
					applyOp(st, m, StoreOp{K: "peerset", Round: 0, Peers: []*peers.Peer{peers.NewPeer(sim.PubHex(0), "a0", "m0"), peers.NewPeer(sim.PubHex(1), "a1", "m1")}})
					res.Seqs++
					names := []string{}
					durable := false
					for _, k := range seq {
						op, ok := directOps(k, ds)
						if !ok {
							names = append(names, "-")
							continue
						}
						names = append(names, op.K)
						if op.K == "reopen" {
							st.Close()
							st = open()
							durable = true
						} else if err := applyOp(st, m, op); err != nil {
							if durable && (op.K == "event") {
								// after a reopen without bootstrap the caches do not know the participants: writes of events are not defined
								break
							}
							viol("direct-write-failed", fmt.Sprintf("direct %v: %v", names, err), map[string]interface{}{"sequence": seq})
							break
						}
						res.Ops++
						if d := battery(st, m, durable, &res.Reads); d != "" {
							viol("direct:"+strings.SplitN(d, "(", 2)[0], fmt.Sprintf("direct sequence %v (cache %d): %s", names, it.Cache, d), map[string]interface{}{"sequence": seq, "names": names})
							break
						}
					}
					if len(res.States) < 2000 {
						res.States = append(res.States, strings.Join(names, ","))
					}
					st.Close()
					return
				}
				for k := 0; k < 8; k++ {
					rec(append(seq, k))
				}
			}
			rec(append([]int{}, it.Prefix...))
		}
		return json.Marshal(res)
	})

	checks["C16"] = func(args []string) int {
		th := ev.Tier() == "thorough"
		rep := ev.NewReport("C16", "model_checking")
		var items []StoreItem
		// the third history is that of a joiner that fast-forwards (Reset from a frame) and then sees another join
		sources := []string{scStatic3, scJoin3, "node3@ffjoin:3:5:110:44:0:1"}
		caches := []int{2, 3, 4, 5, 7, 10, 11, 100, 10000}
		for _, s := range sources {
			for _, c := range caches {
				items = append(items, StoreItem{Mode: "replay", Source: s, Cache: c})
			}
		}
		// live nodes: histories with silent / lagging / joining participants (a participant's first descendant of an
		// event may arrive long after the event was committed)
		for _, s := range []string{scStatic3, scJoin3, scLeave4, scSilent4, scSilent5, scLate4, scLaggards4, scLaggards7, scRejoin4, "slow:4:4:1:120"} {
			items = append(items, StoreItem{Mode: "live", Source: s})
		}
		items = append(items, StoreItem{Mode: "long", Cache: 10, Depth: 1300}, StoreItem{Mode: "long", Cache: 100, Depth: 700})
		nops := map[string]int{}
		for _, s := range sources {
			nops[s] = len(recordOps(s))
		}
		// close+reopen after write position p: every p (thorough) / every 5th p of static3 and every 25th of join3to4 (quick)
		for _, s := range sources {
			step := 1
			if !th {
				step = 5
				if s != scStatic3 {
					step = 25
				}
				if strings.HasPrefix(s, "node3@") {
					step = 12
				}
			}
			var chunk []int
			for p := 0; p < nops[s]; p += step {
				chunk = append(chunk, p)
				if len(chunk) == 8 || p+step >= nops[s] {
					for _, q := range chunk {
						items = append(items, StoreItem{Mode: "reopen", Source: s, Cache: 4, From: q, To: q + 1})
					}
					chunk = nil
				}
			}
		}
		depth := 5 // both tiers (512 items of 64 sequences, 2.5 s each)
		// 64 sequences per item (a worker process serves one item: thousands of Badger instances opened and closed in one
		// process keep gigabytes resident)
		for a := 0; a < 8; a++ {
			for b := 0; b < 8; b++ {
				if depth <= 4 {
					items = append(items, StoreItem{Mode: "direct", Cache: 2, Depth: depth, Prefix: []int{a, b}})
					continue
				}
				for c := 0; c < 8; c++ {
					items = append(items, StoreItem{Mode: "direct", Cache: 2, Depth: depth, Prefix: []int{a, b, c}})
				}
			}
		}
		raw := make([]json.RawMessage, len(items))
		for i, it := range items {
			raw[i], _ = json.Marshal(it)
		}
		bud := budget(map[bool]time.Duration{false: 170 * time.Second, true: 40 * time.Minute}[th])
		pool := explore.Pool{Mode: "store", Deadline: time.Now().Add(bud), Recycle: 1}
		tot := &StoreResult{Ctr: map[string]int{}}
		states := map[string]bool{}
		var crashes []string
		handed := pool.Run(raw, func(r explore.PoolResult) {
			if r.Crashed != "" || r.Err != "" {
				crashes = append(crashes, string(raw[r.Index])+": "+r.Crashed+r.Err)
				return
			}
			var res StoreResult
			json.Unmarshal(r.Res, &res)
			attachItem(res.Viol, "store", raw[r.Index])
			tot.Seqs += res.Seqs
			tot.Ops += res.Ops
			tot.Reads += res.Reads
			tot.Viol = append(tot.Viol, res.Viol...)
			for _, s := range res.States {
				states[s] = true
			}
			for k, v := range res.Ctr {
				if v > tot.Ctr[k] {
					tot.Ctr[k] = v
				}
			}
			if len(tot.Sample) == 0 && len(res.Sample) > 0 {
				tot.Sample = res.Sample
			}
		})
		if len(crashes) > 0 {
			for _, c := range crashes {
				fmt.Fprintln(os.Stderr, "worker problem:", c)
			}
			ev.Fail("%d work items failed in the harness", len(crashes))
		}
		rep.Violations = tot.Viol
		cov := rep.Coverage
		cov["states"] = len(states) + tot.Seqs
		cov["transitions"] = tot.Ops
		cov["traces_validated_against_impl"] = tot.Seqs
		cov["evaluations"] = tot.Seqs
		cov["distinct_nontrivial"] = len(states) + tot.Seqs
		cov["reads_compared_with_model"] = tot.Reads
		cov["recorded_history_sizes"] = nops
		cov["counters"] = tot.Ctr
		cov["exhaustive"] = handed == len(items)
		cov["samples"] = []interface{}{tot.Sample}
		cov["rule"] = fmt.Sprintf("(a) the exact Store write sequences of node 0 in the static3 and join3to4 E1 seeds and of a joiner that fast-forwards (Reset from a frame, then a further validator-set change) (values snapshotted in persisted form at call time) replayed on a real BadgerStore with cache sizes 2,3,4,5,7,10,11,100,10000 (odd and even: the rolling windows halve themselves) against a map/list model, with the complete read battery (GetEvent + database copy, ParticipantEvents from several skips, ParticipantEvent for every index, LastEventFrom, KnownEvents, topological listing, rounds, blocks, frames, peer sets, repertoire, roots with their content) after writes, and close+reopen after every write position (one run per position, database-backed reads only); (d) a participant with 1300 (700) events behind a cache of 10 (100): listings from 13 starting points through the store and from the database, live and after reopen; (c) real nodes on a BadgerStore in 10 histories with silent, lagging, leaving and re-joining participants: after every tenth step the database copy of every cached event must be the persisted form of the cached object; (b) all sequences of depth %d over the direct alphabet {event p0, event p1, update last event of p0, block 0 / block 1 with growing signatures, round update, frame, close+reopen} with cache 2. states = sequences + distinct direct operation strings", depth)
		rep.Assumptions = []string{"'value' = the persisted representation (body, signature, wire ids, topological index, coordinates); in-memory memo fields that MarshalDB omits by design are not compared", "after a reopen without bootstrap only database-backed reads are defined"}
		return rep.Finish()
	}
}

func firstDiff(a, b string) string {
	i := 0
	for i < len(a) && i < len(b) && a[i] == b[i] {
		i++
	}
	lo := i - 40
	if lo < 0 {
		lo = 0
	}
	ha, hb := i+60, i+60
	if ha > len(a) {
		ha = len(a)
	}
	if hb > len(b) {
		hb = len(b)
	}
	return fmt.Sprintf("held …%s… / stored …%s…", a[lo:ha], b[lo:hb])
}
