package main

import (
	"encoding/json"
	"fmt"
	"os"
	"path/filepath"
	"sort"
	"strings"
	"time"

	hg "github.com/mosaicnetworks/babble/src/hashgraph"
	"verif/harness/dag"
	"verif/harness/ev"
	"verif/harness/explore"
	"verif/harness/mon"
	"verif/harness/sched"
	"verif/harness/sim"
)

// DagItem is a work item of the DAG engine.
// c03PinnedWindows: in-flight window (smallest ladder cache size at which the in-memory store never read an evicted
// item) measured on the pinned tree for inputs in which a validator returns after a long silence.
var c03PinnedWindows = map[string]int{
	"harvest:returning:12:160:40": 120,
	"harvest:returning:12:260:30": 120,
}

type DagItem struct {
	Source   string      `json:"src"` // "harvest:<scenario>" | "enum:<n>:<max>:<c0>,<c1>…" (prefix of generation choices)
	Devs     []sched.Dev `json:"devs,omitempty"`
	Variants []string    `json:"var"`
	Level    int         `json:"lvl"` // 0 quick, 1 thorough
	Static   bool        `json:"static"`
}

type DagResult struct {
	Dags     int            `json:"dags"`
	Runs     int            `json:"runs"`
	Inserts  int            `json:"inserts"`
	Viol     []ev.Violation `json:"viol,omitempty"`
	Counters map[string]int `json:"ctr"`
	Sample   []string       `json:"sample,omitempty"`
	Outcomes []string       `json:"outs,omitempty"` // distinct reference outcomes (digest)
}

func scratchDir() string {
	d := filepath.Join(ev.Dir(), "run", fmt.Sprintf("%d", os.Getpid()))
	os.MkdirAll(d, 0o755)
	return d
}

func outcomeDigest(o *dag.Outcome) string {
	ks := []string{}
	for k, e := range o.Events {
		ks = append(ks, fmt.Sprintf("%s:%d:%v:%d:%d", k[:8], e.Round, e.Witness, e.Lamport, e.RR))
	}
	sort.Strings(ks)
	return fmt.Sprintf("%x", sha(strings.Join(ks, "|")+strings.Join(o.Blocks, ",")))[:16]
}

// linear extensions of the DAG (indices into evs), up to limit; complete=false if cut
func linearExtensions(evs []dag.Ev, limit int) (res [][]int, complete bool) {
	idx := map[string]int{}
	for i, e := range evs {
		idx[e.Hex] = i
	}
	n := len(evs)
	used := make([]bool, n)
	cur := []int{}
	complete = true
	var rec func()
	rec = func() {
		if len(res) >= limit {
			complete = false
			return
		}
		if len(cur) == n {
			res = append(res, append([]int{}, cur...))
			return
		}
		for i := 0; i < n; i++ {
			if used[i] {
				continue
			}
			ok := true
			for _, p := range []string{evs[i].Self, evs[i].Other} {
				if j, has := idx[p]; has && !used[j] {
					ok = false
				}
			}
			if !ok {
				continue
			}
			used[i] = true
			cur = append(cur, i)
			rec()
			cur = cur[:len(cur)-1]
			used[i] = false
		}
	}
	rec()
	return
}

func creatorPriorityOrder(evs []dag.Ev, prio []int) []int {
	idx := map[string]int{}
	for i, e := range evs {
		idx[e.Hex] = i
	}
	used := make([]bool, len(evs))
	rank := map[int]int{}
	for r, c := range prio {
		rank[c] = r
	}
	var out []int
	for len(out) < len(evs) {
		best := -1
		for i, e := range evs {
			if used[i] {
				continue
			}
			ok := true
			for _, p := range []string{e.Self, e.Other} {
				if j, has := idx[p]; has && !used[j] {
					ok = false
				}
			}
			if !ok {
				continue
			}
			ri, ok2 := rank[e.CreatorIdx]
			if !ok2 {
				ri = 99
			}
			if best < 0 {
				best = i
				continue
			}
			rb, ok3 := rank[evs[best].CreatorIdx]
			if !ok3 {
				rb = 99
			}
			if ri < rb {
				best = i
			}
		}
		used[best] = true
		out = append(out, best)
	}
	return out
}

func permute(evs []dag.Ev, order []int) []dag.Ev {
	out := make([]dag.Ev, len(order))
	for i, k := range order {
		out[i] = evs[k]
	}
	return out
}

func independent(a, b dag.Ev) bool {
	return b.Self != a.Hex && b.Other != a.Hex
}

// checkDag runs all requested variants on one DAG (given in reference order).
func checkDag(evs []dag.Ev, n int, it DagItem, res *DagResult, label string) {
	res.Dags++
	base := dag.RunOpts{N: n, CacheSize: 10000, Bare: strings.HasPrefix(it.Source, "enum:") || strings.HasPrefix(it.Source, "named:")}
	ref := dag.Run(evs, base)
	res.Runs++
	res.Inserts += len(evs)
	if ref.Err != "" {
		res.Viol = append(res.Viol, ev.Violation{Property: "C03", Key: "reference-run-failed", What: label + ": " + ref.Err,
			Replay: map[string]interface{}{"dag": label, "events": describeDag(evs)}})
		return
	}
	if len(ref.Blocks) > 0 {
		res.Counters["dags_with_blocks"]++
	}
	rr := 0
	for _, e := range ref.Events {
		if e.HasRR {
			rr++
		}
	}
	if rr > 0 {
		res.Counters["dags_with_round_received"]++
	}
	if len(res.Outcomes) < 4000 {
		res.Outcomes = append(res.Outcomes, outcomeDigest(ref))
	}
	if len(res.Sample) == 0 {
		res.Sample = describeDag(evs)
	}
	report := func(key, variant, diff string, order []int) {
		if strings.HasPrefix(it.Source, "named:") || strings.HasPrefix(it.Source, "harvest:") && len(it.Devs) == 0 {
			key = it.Source + "/" + key // hand-drawn and harvested DAGs are identified in the key (known findings are listed per input)
		}
		res.Viol = append(res.Viol, ev.Violation{Property: "C03", Key: key,
			What:   fmt.Sprintf("%s, variant %s: %s", label, variant, diff),
			Replay: map[string]interface{}{"dag": label, "variant": variant, "order": order, "events": describeDag(evs), "devs": it.Devs}})
	}
	has := func(v string) bool {
		for _, x := range it.Variants {
			if x == v {
				return true
			}
		}
		return false
	}
	run := func(list []dag.Ev, o dag.RunOpts) *dag.Outcome {
		res.Runs++
		res.Inserts += len(list)
		return dag.Run(list, o)
	}
	// With a changing validator set a topological order is admissible only if
	// every creator is already known (its join committed) when its event is
	// inserted; an order in which the insertion itself is refused for that
	// reason is not an insertion order of this DAG.
	inadmissible := func(v *dag.Outcome) bool {
		if it.Static || v.Err == "" {
			return false
		}
		if strings.Contains(v.Err, "Unknown Participant") || strings.Contains(v.Err, "not found") && strings.Contains(v.Err, "Creator") {
			res.Counters["inadmissible_orders_skipped"]++
			return true
		}
		return false
	}
	if has("orders") {
		if len(evs) <= 14 {
			lim := 300
			if it.Level > 0 {
				lim = 5000
			}
			exts, complete := linearExtensions(evs, lim)
			if !complete {
				res.Counters["dags_with_capped_linear_extensions"]++
			}
			for _, o := range exts {
				v := run(permute(evs, o), base)
				res.Counters["order_variants"]++
				if d := dag.Compare(ref, v, true); d != "" {
					report("insertion-order", "linear extension", d, o)
					break
				}
			}
		} else {
			// creator-priority extreme orders
			creators := []int{}
			seen := map[int]bool{}
			for _, e := range evs {
				if !seen[e.CreatorIdx] {
					seen[e.CreatorIdx] = true
					creators = append(creators, e.CreatorIdx)
				}
			}
			sort.Ints(creators)
			for r := range creators {
				prio := append(append([]int{}, creators[r:]...), creators[:r]...)
				o := creatorPriorityOrder(evs, prio)
				v := run(permute(evs, o), base)
				res.Counters["order_variants"]++
				if inadmissible(v) {
					continue
				}
				if d := dag.Compare(ref, v, true); d != "" {
					report("insertion-order", fmt.Sprintf("creator priority %v", prio), d, o)
					break
				}
				if it.Level > 0 {
					rev := append([]int{}, prio...)
					for a, b := 0, len(rev)-1; a < b; a, b = a+1, b-1 {
						rev[a], rev[b] = rev[b], rev[a]
					}
					o := creatorPriorityOrder(evs, rev)
					v := run(permute(evs, o), base)
					res.Counters["order_variants"]++
					if inadmissible(v) {
						continue
					}
					if d := dag.Compare(ref, v, true); d != "" {
						report("insertion-order", fmt.Sprintf("creator priority %v", rev), d, o)
						break
					}
				}
			}
			// adjacent transpositions of independent events
			stride := 3
			if it.Level > 0 {
				stride = 1
			}
			for i := 0; i+1 < len(evs); i += stride {
				if !independent(evs[i], evs[i+1]) {
					continue
				}
				o := make([]int, len(evs))
				for k := range o {
					o[k] = k
				}
				o[i], o[i+1] = o[i+1], o[i]
				v := run(permute(evs, o), base)
				res.Counters["order_variants"]++
				if inadmissible(v) {
					continue
				}
				if d := dag.Compare(ref, v, true); d != "" {
					report("insertion-order", fmt.Sprintf("transposition at %d", i), d, o)
					break
				}
			}
		}
	}
	if has("batch") && it.Static {
		for _, b := range []int{2, 3, 4, 5, 7, -1} {
			o := base
			o.Batch = b
			v := run(evs, o)
			res.Counters["batch_variants"]++
			// a conflict (a value both runs decided differs) and a difference in progress (one run has
			// decided something the other has not, yet) are different findings and get different keys
			if kind, d := dag.CompareKind(ref, v, true); d != "" {
				key := fmt.Sprintf("batching-b%d", b)
				if kind == "progress" {
					key = fmt.Sprintf("batching-progress-b%d", b)
				}
				report(key, fmt.Sprintf("consensus pass every %d insertions (-1: once at the end)", b), d, nil)
			}
		}
		// single "skip this pass" deviations
		stride := 1
		if len(evs) > 20 && it.Level == 0 {
			stride = 4
		}
		for i := 0; i < len(evs)-1; i += stride {
			o := base
			o.Skip = make([]bool, len(evs))
			o.Skip[i] = true
			v := run(evs, o)
			res.Counters["batch_variants"]++
			if kind, d := dag.CompareKind(ref, v, true); d != "" {
				key := "batching-skip1"
				if kind == "progress" {
					key = "batching-progress-skip1"
				}
				report(key, fmt.Sprintf("no consensus pass after insertion %d", i), d, nil)
				break
			}
		}
	}
	if has("store") {
		o := base
		o.Badger = true
		o.Dir = scratchDir()
		v := run(evs, o)
		res.Counters["store_variants"]++
		if d := dag.Compare(ref, v, true); d != "" {
			report("store-badger", "BadgerStore, default cache", d, nil)
		}
	}
	if has("cache") {
		// in-flight window W: smallest ladder size with no read hitting an evicted item
		ladder := []int{400, 200, 120, 80, 60, 50, 40, 30, 25, 20, 15, 10, 7, 5}
		w := 10000
		for _, sz := range ladder {
			o := base
			o.CacheSize = sz
			o.Record = true
			v := run(evs, o)
			if v.Misses > 0 || v.Err != "" {
				break
			}
			w = sz
			// an inmem run without misses is itself a variant
			res.Counters["cache_variants"]++
			if d := cmpLoose(ref, v); d != "" {
				report("cache-size", fmt.Sprintf("InmemStore cache %d (no read hit an evicted item)", sz), d, nil)
				break
			}
		}
		res.Counters["window_sum"] += w
		if w0, ok := c03PinnedWindows[it.Source]; ok {
			// The window above is measured on the tree under test, so a change that makes the in-memory store lose
			// things it used to hold would only move the window. For these inputs the window of the pinned tree is
			// written down (c03PinnedWindows); at twice that size the in-memory store must still compute what a
			// BadgerStore of the same cache size computes.
			res.Counters["pinned_window_inputs"]++
			sz := 2 * w0
			oi := base
			oi.CacheSize = sz
			vi := run(evs, oi)
			ob := base
			ob.CacheSize = sz
			ob.Badger = true
			ob.Dir = scratchDir()
			vb := run(evs, ob)
			res.Counters["cache_variants"] += 2
			if vi.Err != "" && vb.Err == "" && cmpLoose(ref, vb) == "" {
				report("cache-size-store-dependence", fmt.Sprintf("InmemStore cache %d (twice the in-flight window %d of the pinned tree for this input; now measured: %d)", sz, w0, w),
					fmt.Sprintf("the in-memory store fails (%s) where a BadgerStore with the same cache size computes the reference result", vi.Err), nil)
			} else if vi.Err == "" {
				if d := cmpLoose(ref, vi); d != "" {
					report("cache-size", fmt.Sprintf("InmemStore cache %d", sz), d, nil)
				}
			}
		}
		if w < 10000 {
			for _, sz := range []int{w, w + 1, 2 * w} {
				o := base
				o.CacheSize = sz
				o.Badger = true
				o.Dir = scratchDir()
				v := run(evs, o)
				res.Counters["cache_variants"]++
				if d := cmpLoose(ref, v); d != "" {
					report("cache-size-badger", fmt.Sprintf("BadgerStore cache %d (window %d)", sz, w), d, nil)
					break
				}
			}
			// Badger never loses data: also far below the window
			if it.Level > 0 {
				o := base
				o.CacheSize = 5
				o.Badger = true
				o.Dir = scratchDir()
				v := run(evs, o)
				res.Counters["cache_variants"]++
				if d := cmpLoose(ref, v); d != "" && v.Err == "" {
					report("cache-size-badger-tiny", "BadgerStore cache 5 (below the window; reported only if it silently diverges)", d, nil)
				}
			}
		}
	}
	if has("cuts") {
		// downward-closed products of per-creator chain prefixes
		chains := map[int][]int{}
		creators := []int{}
		for i, e := range evs {
			if _, ok := chains[e.CreatorIdx]; !ok {
				creators = append(creators, e.CreatorIdx)
			}
			chains[e.CreatorIdx] = append(chains[e.CreatorIdx], i)
		}
		depth := 2
		if it.Level > 0 {
			depth = 4
		}
		if len(evs) <= 14 {
			depth = 99
		}
		idx := map[string]int{}
		for i, e := range evs {
			idx[e.Hex] = i
		}
		cut := make([]int, len(creators))
		var rec func(k int)
		stop := false
		rec = func(k int) {
			if stop {
				return
			}
			if k == len(creators) {
				keep := make([]bool, len(evs))
				all := true
				for ci, c := range creators {
					ch := chains[c]
					for j := 0; j < len(ch)-cut[ci]; j++ {
						keep[ch[j]] = true
					}
					if cut[ci] > 0 {
						all = false
					}
				}
				if all {
					return
				}
				var sub []dag.Ev
				for i, e := range evs {
					if !keep[i] {
						continue
					}
					for _, p := range []string{e.Self, e.Other} {
						if j, ok := idx[p]; ok && !keep[j] {
							return // not downward closed
						}
					}
					sub = append(sub, e)
				}
				if len(sub) == 0 {
					return
				}
				v := run(sub, base)
				res.Counters["cut_variants"]++
				if d := dag.Compare(ref, v, false); d != "" {
					report("sub-dag", fmt.Sprintf("downward-closed cut removing %v top events of creators %v", cut, creators), d, nil)
					stop = true
				}
				return
			}
			for c := 0; c <= depth && c <= len(chains[creators[k]]); c++ {
				cut[k] = c
				rec(k + 1)
			}
			cut[k] = 0
		}
		rec(0)
	}
}

// cmpLoose: same event set but a small cache, so some values are no longer
// reported by the store; everything both runs report must agree and the same
// number of blocks must have been delivered.
func cmpLoose(ref, v *dag.Outcome) string {
	if d := dag.Compare(ref, v, false); d != "" {
		return d
	}
	if len(ref.Blocks) != len(v.Blocks) {
		return fmt.Sprintf("variant delivered %d blocks, reference %d", len(v.Blocks), len(ref.Blocks))
	}
	return ""
}

func describeDag(evs []dag.Ev) []string {
	name := map[string]string{}
	var out []string
	for _, e := range evs {
		nm := fmt.Sprintf("%c%d", 'a'+e.CreatorIdx, e.Body.Index)
		name[e.Hex] = nm
		out = append(out, fmt.Sprintf("%s(self=%s other=%s txs=%d itx=%d)", nm, name[e.Self], name[e.Other], len(e.Body.Transactions), len(e.Body.InternalTransactions)))
	}
	return out
}

// enumerate fork-free DAGs of n creators: every generation step picks a
// creator and an other-parent among {none, last, second-last event of another creator}.
func enumDags(n, maxEvents int, prefix []int, minReport int, visit func(evs []dag.Ev)) {
	type st struct{ evs []dag.Ev }
	heads := make([][]int, n) // per creator: indices of its events
	var evs []dag.Ev
	mk := func(c int, other string) dag.Ev {
		self := ""
		idx := 0
		if len(heads[c]) > 0 {
			self = evs[heads[c][len(heads[c])-1]].Hex
			idx = len(heads[c])
		}
		var txs [][]byte
		if len(evs)%3 == 0 {
			txs = [][]byte{[]byte(fmt.Sprintf("e%d", len(evs)))}
		}
		e := hg.NewEvent(txs, nil, nil, []string{self, other}, sim.PubOf(c), idx)
		e.Body.Timestamp = sim.BaseTime + int64(len(evs))*7 + int64(c)
		if err := e.Sign(sim.Key(c)); err != nil {
			panic(err)
		}
		return dag.FromEvent(e, c)
	}
	options := func() [][2]interface{} {
		var opts [][2]interface{}
		for c := 0; c < n; c++ {
			if len(heads[c]) > 0 || true {
				// other parent: none (only for a creator's first event or n==1), last / second-last of each other creator
				if len(heads[c]) == 0 || n == 1 {
					opts = append(opts, [2]interface{}{c, ""})
				}
				for o := 0; o < n; o++ {
					if o == c {
						continue
					}
					h := heads[o]
					if len(h) >= 1 {
						opts = append(opts, [2]interface{}{c, evs[h[len(h)-1]].Hex})
					}
					if len(h) >= 2 {
						opts = append(opts, [2]interface{}{c, evs[h[len(h)-2]].Hex})
					}
				}
			}
		}
		return opts
	}
	var rec func(depth int)
	rec = func(depth int) {
		if depth >= len(prefix) && len(evs) >= minReport {
			visit(append([]dag.Ev{}, evs...))
		}
		if len(evs) >= maxEvents {
			return
		}
		opts := options()
		for k, o := range opts {
			if depth < len(prefix) && prefix[depth] != k {
				continue
			}
			c := o[0].(int)
			e := mk(c, o[1].(string))
			evs = append(evs, e)
			heads[c] = append(heads[c], len(evs)-1)
			rec(depth + 1)
			heads[c] = heads[c][:len(heads[c])-1]
			evs = evs[:len(evs)-1]
		}
	}
	rec(0)
}

func init() {
	explore.Register("dag", func(spec json.RawMessage) (json.RawMessage, error) {
		var it DagItem
		if err := json.Unmarshal(spec, &it); err != nil {
			return nil, err
		}
		res := &DagResult{Counters: map[string]int{}}
		defer os.RemoveAll(scratchDir())
		p := strings.Split(it.Source, ":")
		switch p[0] {
		case "harvest":
			scn := strings.Join(p[1:], ":")
			sc := sched.ScenarioByName(scn)
			x := sched.NewExec(sc, nil)
			x.NoDigest = true
			devAt := map[int][]sched.Dev{}
			for _, d := range it.Devs {
				devAt[d.Pos] = append(devAt[d.Pos], d)
			}
			for pos, a := range sc.Seed {
				replaced := false
				for _, d := range devAt[pos] {
					x.Step(d.Alt)
					if !d.Ins {
						replaced = true
					}
				}
				if !replaced {
					x.Step(a)
				}
			}
			evs := dag.Harvest(x.C)
			n := sc.Cfg.N
			x.Close()
			checkDag(evs, n, it, res, it.Source)
		case "named":
			evs, n := namedDag(p[1])
			if evs == nil {
				if strings.Contains(p[1], "~") {
					res.Counters["deviations_not_applicable"]++
					break
				}
				return nil, fmt.Errorf("unknown named DAG %s", p[1])
			}
			checkDag(evs, n, it, res, it.Source)
		case "enum":
			n, max := atoi(p[1]), atoi(p[2])
			var prefix []int
			if len(p) > 3 && p[3] != "" {
				for _, s := range strings.Split(p[3], ",") {
					prefix = append(prefix, atoi(s))
				}
			}
			min := 4
			if n == 1 {
				min = 3
			}
			enumDags(n, max, prefix, min, func(evs []dag.Ev) {
				checkDag(evs, n, it, res, fmt.Sprintf("%s #%d", it.Source, res.Dags))
			})
		}
		// keep only the first violation per key
		seen := map[string]bool{}
		var vs []ev.Violation
		for _, v := range res.Viol {
			if !seen[v.Key] {
				seen[v.Key] = true
				vs = append(vs, v)
			}
		}
		res.Viol = vs
		return json.Marshal(res)
	})

	checks["C03"] = func(args []string) int {
		th := ev.Tier() == "thorough"
		lvl := 0
		if th {
			lvl = 1
		}
		allv := []string{"orders", "batch", "store", "cache", "cuts"}
		type phase struct {
			name  string
			items []DagItem
		}
		var phases []phase
		// (a) exhaustive small DAGs
		enumItems := func(n, max, plen int, variants []string) []DagItem {
			// shard by generation prefix
			var items []DagItem
			var prefixes [][]int
			var rec func(p []int)
			// count options by dry enumeration: use generic bound 7 per level and let the worker skip absent indices
			rec = func(p []int) {
				if len(p) == plen {
					prefixes = append(prefixes, append([]int{}, p...))
					return
				}
				for k := 0; k < 2*n+2*n*(n-1); k++ {
					rec(append(p, k))
				}
			}
			rec(nil)
			for _, p := range prefixes {
				ss := []string{}
				for _, k := range p {
					ss = append(ss, fmt.Sprint(k))
				}
				items = append(items, DagItem{Source: fmt.Sprintf("enum:%d:%d:%s", n, max, strings.Join(ss, ",")), Variants: variants, Level: lvl, Static: true})
			}
			return items
		}
		small := []string{"orders", "batch", "cuts"}
		phases = append(phases, phase{"all fork-free DAGs n=1, <=12 events", []DagItem{{Source: "enum:1:12:", Variants: small, Level: lvl, Static: true}}})
		if !th {
			phases = append(phases, phase{"all fork-free DAGs n=2, 4..8 events (other-parent in {none for first, last, second-last})", enumItems(2, 8, 3, small)})
			phases = append(phases, phase{"all fork-free DAGs n=3, 4..5 events", enumItems(3, 5, 2, small)})
		} else {
			phases = append(phases, phase{"all fork-free DAGs n=2, 4..10 events (other-parent in {none for first, last, second-last})", enumItems(2, 10, 4, small)})
			phases = append(phases, phase{"all fork-free DAGs n=3, 4..7 events", enumItems(3, 7, 3, small)})
		}
		phases = append(phases, phase{"hand-drawn 4-creator DAGs of the repository's 'funky' shape (a creator's next witness precedes another creator's first descendant of its previous witness), plain and stacked on an extra round; a 76-event DAG whose round-1 fame election goes through a coin round; a 52-event DAG in which the round-2 election closes before the round-1 election", []DagItem{
			{Source: "named:funky", Variants: []string{"orders", "batch", "cuts", "cache"}, Level: 1, Static: true},
			{Source: "named:funkystacked", Variants: []string{"orders", "batch", "cuts", "cache"}, Level: 1, Static: true},
			{Source: "named:coinround", Variants: []string{"orders", "batch", "cuts"}, Level: 1, Static: true},
			{Source: "named:outoforder", Variants: []string{"orders", "batch", "cuts", "cache"}, Level: 1, Static: true},
		}})
		var coinDev []DagItem
		for k := 4; k < 76; k++ {
			coinDev = append(coinDev, DagItem{Source: fmt.Sprintf("named:coinround~%d", k), Variants: []string{"orders", "cuts"}, Level: lvl, Static: true})
		}
		phases = append(phases, phase{"single-event deviations of the coin-round DAG (event k sees a one-step older event of its other-parent's creator, k=4..75), orders and cuts", coinDev})
		var oooDev []DagItem
		for k := 4; k < len(outOfOrderPlays); k++ {
			oooDev = append(oooDev, DagItem{Source: fmt.Sprintf("named:outoforder~%d", k), Variants: []string{"orders", "batch", "cuts"}, Level: lvl, Static: true})
		}
		phases = append(phases, phase{"single-event deviations of the out-of-order-election DAG (k=4..51), orders, batchings and cuts", oooDev})
		// a validator that comes back after a long silence (its next event's self-parent is hundreds of events old):
		// store and cache variants only, judged against the in-flight window of the pinned tree
		var ret []DagItem
		for _, src := range []string{"harvest:returning:12:160:40", "harvest:returning:12:260:30"} {
			if _, ok := c03PinnedWindows[src]; !ok {
				ev.Fail("C03: no pinned window for %s", src)
			}
			ret = append(ret, DagItem{Source: src, Variants: []string{"store", "cache"}, Level: lvl, Static: true})
		}
		phases = append(phases, phase{"final DAGs of two runs in which a validator is silent for 320 / 520 events and then returns: store and cache variants; at twice the in-flight window of the pinned tree the in-memory store must compute what a BadgerStore of that cache size computes", ret})
		// (b) harvested DAGs
		var hv []DagItem
		for _, s := range []string{scStatic3, scStatic4, scSilent4, scLate4, scSilent5, scLaggards4, scPart4, "slow:4:4:1:120", "slow:4:5:0:120", "slow:4:2:0:120"} {
			hv = append(hv, DagItem{Source: "harvest:" + s, Variants: allv, Level: lvl, Static: true})
		}
		for _, s := range []string{scJoin3, scLeave4, scJoin2} {
			hv = append(hv, DagItem{Source: "harvest:" + s, Variants: []string{"orders", "store", "cache", "cuts"}, Level: lvl, Static: false})
		}

		phases = append(phases, phase{"final DAGs of 13 E1 seeds (static 3/4, silent 4/5, late witness, one-way laggard, partition, three runs with one validator taking every 2nd/4th/5th turn only: all variants; join 3->4, leave 4->3, join 2->3: orders, store, cache, cuts)", hv})
		var hd []DagItem
		stride := 9
		if th {
			stride = 2
		}
		for _, s := range []string{scStatic3, scLate4, scJoin3} {
			nn := 3
			if s != scStatic3 {
				nn = 4
			}
			for _, pos := range seedPositions(s, 2, 0, stride) {
				for _, d := range devAlphabet(nodesOf(nn), 0, 0) {
					if d.Alt.K != "G" || d.Alt.Fault != "" {
						continue
					}
					dv := d
					dv.Pos = pos
					vs := []string{"orders", "cuts"}
					if s != scJoin3 {
						vs = append(vs, "batch")
					}
					if !th && d.Alt.Lim == 0 {
						continue // quick: only truncated-sync deviations
					}
					hd = append(hd, DagItem{Source: "harvest:" + s, Devs: []sched.Dev{dv}, Variants: vs, Level: 0, Static: s != scJoin3})
				}
			}
		}
		phases = append(phases, phase{"final DAGs of single-deviation executions of static3, latewitness4, join3to4", hd})

		rep := ev.NewReport("C03", "model_checking")
		deadline := time.Now().Add(budget(map[bool]time.Duration{false: 200 * time.Second, true: 45 * time.Minute}[th]))
		tot := &DagResult{Counters: map[string]int{}}
		outs := map[string]bool{}
		exhaustive := true
		var completed []string
		var crashes []string
		for _, ph := range phases {
			if time.Now().After(deadline) {
				exhaustive = false
				break
			}
			raw := make([]json.RawMessage, len(ph.items))
			for i, it := range ph.items {
				raw[i], _ = json.Marshal(it)
			}
			pool := explore.Pool{Mode: "dag", Deadline: deadline}
			t0 := time.Now()
			handed := pool.Run(raw, func(r explore.PoolResult) {
				if r.Crashed != "" || r.Err != "" {
					crashes = append(crashes, string(raw[r.Index])+": "+r.Crashed+r.Err)
					return
				}
				var res DagResult
				json.Unmarshal(r.Res, &res)
				attachItem(res.Viol, "dag", raw[r.Index])
				tot.Dags += res.Dags
				tot.Runs += res.Runs
				tot.Inserts += res.Inserts
				for k, v := range res.Counters {
					tot.Counters[k] += v
				}
				for _, o := range res.Outcomes {
					outs[o] = true
				}
				tot.Viol = append(tot.Viol, res.Viol...)
				if len(tot.Sample) == 0 && len(res.Sample) > 6 {
					tot.Sample = res.Sample
				}
			})
			if handed < len(ph.items) {
				exhaustive = false
				fmt.Printf("[C03] phase %s: time budget reached after %d/%d items\n", ph.name, handed, len(ph.items))
				break
			}
			completed = append(completed, ph.name)
			fmt.Printf("[C03] phase %s complete: %d items, %d DAGs, %d runs so far, %.1fs\n", ph.name, len(ph.items), tot.Dags, tot.Runs, time.Since(t0).Seconds())
		}
		if len(crashes) > 0 {
			for _, c := range crashes {
				fmt.Fprintln(os.Stderr, "worker problem:", c)
			}
			ev.Fail("%d work items failed in the harness", len(crashes))
		}
		for _, v := range tot.Viol {
			rep.Violations = append(rep.Violations, v)
		}
		cov := rep.Coverage
		cov["states"] = len(outs)
		cov["transitions"] = tot.Inserts
		cov["traces_validated_against_impl"] = tot.Runs
		cov["evaluations"] = tot.Runs
		cov["distinct_nontrivial"] = len(outs)
		cov["dags"] = tot.Dags
		cov["counters"] = tot.Counters
		cov["exhaustive"] = exhaustive
		cov["bounds_completed"] = completed
		cov["samples"] = []interface{}{tot.Sample}
		cov["rule"] = "inputs: every fork-free DAG of the stated sizes (generation alphabet: creator x other-parent in {none for a first event, last or second-last event of another creator}, payload on every third event) and the final DAGs of E1 seed/deviation executions. Each DAG is re-inserted into fresh real hashgraphs (inside a real Node, so validator-set changes go through the real commit) under: all linear extensions (small) / creator-priority and adjacent-transposition orders (large); consensus pass every 2,3,4,5,7 insertions, once at the end, and every single skipped pass (static sets); BadgerStore; cache sizes at the measured in-flight window W, W+1, 2W; all downward-closed per-creator prefix cuts. Oracle: per-event round/witness/Lamport/round-received, per-round fame, frame hashes and block bodies equal the reference run (creation order, pass per event, InmemStore, default cache); for cuts every decided value equals the full DAG's and blocks are a prefix. states/distinct_nontrivial = distinct reference outcomes"
		rep.Assumptions = []string{"Go map iteration order is not enumerable: each run re-randomises it (incidental coverage only)", "cache sizes below the measured in-flight window are outside the property's range"}
		_ = mon.Stats{}
		if len(rep.Violations) == 0 && tot.Counters["dags_with_blocks"] < 5 {
			rep.Finish()
			ev.Fail("vacuity guard: only %d DAGs produced blocks", tot.Counters["dags_with_blocks"])
		}
		return rep.Finish()
	}
}
