package main

import (
	"fmt"
	"os"
	"path/filepath"

	hg "github.com/mosaicnetworks/babble/src/hashgraph"
	"strings"
	"verif/harness/dag"

	"verif/harness/mon"
	"verif/harness/sched"
)

func init() {
	checks["dbgdag"] = func(args []string) int {
		sc := sched.ScenarioByName(args[0])
		x := sched.NewExec(sc, nil)
		x.NoDigest = true
		for _, a := range sc.Seed {
			x.Step(a)
		}
		evs := dag.Harvest(x.C)
		n := sc.Cfg.N
		x.Close()
		cache := atoi(args[1])
		ref := dag.Run(evs, dag.RunOpts{N: n, CacheSize: 10000})
		v := dag.Run(evs, dag.RunOpts{N: n, CacheSize: cache, Record: true})
		fmt.Println("ref err", ref.Err, "var err", v.Err, "misses", v.Misses, "events", len(evs))
		for i, e := range evs {
			a, b := ref.Events[e.Hex], v.Events[e.Hex]
			mark := ""
			if a != b {
				mark = "  <<<<"
			}
			fmt.Printf("%3d %c%-3d self=%-10.10s other=%-10.10s itx=%d ref=%+v var=%+v%s\n", i, 'a'+e.CreatorIdx, e.Body.Index, e.Self, e.Other, len(e.Body.InternalTransactions), a, b, mark)
		}
		fmt.Println("ref blocks", ref.BlockD)
		fmt.Println("var blocks", v.BlockD)
		fmt.Fprintln(os.Stderr, dag.Compare(ref, v, true))
		return 0
	}
}

func init() {
	checks["dbgtwin"] = func(args []string) int {
		cont := []sched.Action{{K: "G", A: 1, B: 0}, {K: "T", A: 0}, {K: "G", A: 0, B: 2}, {K: "G", A: 2, B: 0}, {K: "G", A: 0, B: 1}}
		seen := map[uint64]int{}
		for i := 0; i < 30; i++ {
			x := c08Build(args[0])
			d0 := x.C.Digest()
			for _, a := range cont {
				x.Step(a)
			}
			seen[x.C.Digest()]++
			_ = d0
			x.Close()
		}
		fmt.Println(seen)
		return 0
	}
}

func init() {
	checks["dbgviol"] = func(args []string) int {
		sc := sched.ScenarioByName(args[0])
		st := &mon.Stats{}
		x := sched.NewExec(sc, sched.MonitorFactory(args[1:], st))
		defer x.Close()
		for k, a := range sc.Seed {
			nv := len(x.Viol)
			x.Step(a)
			if len(x.Viol) > nv {
				fmt.Printf("step %d action %s -> %d new violations\n", k, a.String(), len(x.Viol)-nv)
				for _, v := range x.Viol[nv:] {
					fmt.Println("   ", v.Property, v.Key, v.What[:min(len(v.What), 200)])
				}
				for _, n := range x.C.Nodes {
					if n == nil {
						continue
					}
					all, _ := n.Node.GetAllValidatorSets()
					fmt.Printf("  node %d ff=%d lcr=%d table:", n.Idx, n.FFStep, n.Node.GetLastConsensusRoundIndex())
					for r, ps := range all {
						fmt.Printf(" %d:[", r)
						for _, p := range ps {
							fmt.Printf("k%d ", x.C.PeerIdx[p.PubKeyString()])
						}
						fmt.Printf("]")
					}
					cs := n.Node.VCoreState()
					fmt.Printf(" validators:[")
					for _, p := range cs.Validators {
						fmt.Printf("k%d ", x.C.PeerIdx[p.PubKeyString()])
					}
					fmt.Println("]")
				}
				tr := x.C.Trace
				if len(tr) > 12 {
					tr = tr[len(tr)-12:]
				}
				fmt.Println("  trace tail:", tr)
				return 1
			}
		}
		fmt.Println("no violation")
		return 0
	}
}

func min(a, b int) int {
	if a < b {
		return a
	}
	return b
}

func init() {
	// dbgseq <scenario> <alphabet indexes...>: run Setup, then the given alphabet actions, then the fair suffix
	checks["dbgseq"] = func(args []string) int {
		sc := sched.ScenarioByName(args[0])
		st := &mon.Stats{}
		x := sched.NewExec(sc, sched.MonitorFactory([]string{"C01"}, st))
		defer x.Close()
		show := func(tag string) {
			line := tag
			for _, n := range x.C.Nodes {
				cs := n.Node.VCoreState()
				line += fmt.Sprintf(" | n%d ev=%d blk=%d busy=%v heads=%d silent=%v pool=%d", n.Idx, len(n.Has), n.Node.GetLastBlockIndex(), cs.Busy, len(cs.Heads), n.Silent, len(cs.TxPool))
			}
			fmt.Println(line)
		}
		show("after setup")
		for _, a := range args[1:] {
			act := sc.Alphabet[atoi(a)]
			err := x.Step(act)
			show(fmt.Sprintf("%-10s err=%v", act.String(), err))
		}
		sr := x.FairSuffix(40)
		show(fmt.Sprintf("suffix %+v", sr))
		return 0
	}
}

func init() {
	checks["dbgseq2"] = func(args []string) int {
		sc := sched.ScenarioByName(args[0])
		x := sched.NewExec(sc, nil)
		defer x.Close()
		for _, a := range args[1:] {
			x.Step(sc.Alphabet[atoi(a)])
		}
		x.FairSuffix(40)
		name := func(h string) string {
			r := x.C.Events[h]
			if r == nil {
				return "?"
			}
			return fmt.Sprintf("%c%d", 'a'+r.CreatorIdx, r.Index)
		}
		for _, h := range x.C.EvOrder {
			r := x.C.Events[h]
			if r.CreatorIdx == 3 && r.Index >= 20 || r.FirstStep > 70 && r.Index > 0 && (x.C.Events[r.OtherParent] != nil && x.C.Events[r.OtherParent].CreatorIdx == 3) {
				fmt.Printf("%s step=%d self=%s other=%s txs=%d\n", name(h), r.FirstStep, name(r.SelfParent), name(r.OtherParent), len(r.Txs))
			}
		}
		return 0
	}
}

func init() {
	checks["dbgheads"] = func(args []string) int {
		sc := sched.ScenarioByName(args[0])
		x := sched.NewExec(sc, nil)
		defer x.Close()
		for _, n := range x.C.Nodes {
			cs := n.Node.VCoreState()
			line := fmt.Sprintf("n%d busy=%v heads:", n.Idx, cs.Busy)
			for id, h := range cs.Heads {
				who := -1
				for _, m := range x.C.Nodes {
					if m.Peer.ID() == id {
						who = m.Idx
					}
				}
				if h == "" {
					line += fmt.Sprintf(" %d:nil", who)
				} else {
					line += fmt.Sprintf(" %d:%c%d", who, 'a'+x.C.Events[h].CreatorIdx, x.C.Events[h].Index)
				}
			}
			fmt.Println(line)
		}
		return 0
	}
}

func init() {
	checks["dbgframe"] = func(args []string) int {
		ops := recordOps(args[0])
		for i, op := range ops {
			if op.K != "reset" {
				continue
			}
			f := new(hg.Frame)
			if err := f.Unmarshal(op.Data); err != nil {
				fmt.Println("unmarshal", err)
				return 1
			}
			raw2, _ := f.Marshal()
			a, b := canon(op.Data), canon(raw2)
			fmt.Println("reset at op", i, "len", len(a), len(b), "equal", a == b)
			if a != b {
				k := 0
				for k < len(a) && k < len(b) && a[k] == b[k] {
					k++
				}
				lo := k - 200
				if lo < 0 {
					lo = 0
				}
				fmt.Println("A:", a[lo:min(len(a), k+200)])
				fmt.Println("B:", b[lo:min(len(b), k+200)])
			}
			h1, _ := f.Hash()
			f2 := new(hg.Frame)
			f2.Unmarshal(raw2)
			h2, _ := f2.Hash()
			fmt.Printf("hash after 1 round trip %x, after 2 %x\n", h1[:6], h2[:6])
		}
		return 0
	}
}

func init() {
	checks["dbgframe2"] = func(args []string) int {
		ops := recordOps(args[0])
		upto := atoi(args[1])
		dir := filepath.Join(scratchDir(), "dbg")
		defer os.RemoveAll(scratchDir())
		st, _ := hg.NewBadgerStore(4, dir, false, quietBadger())
		m := newModel()
		for i := 0; i <= upto; i++ {
			if err := applyOp(st, m, ops[i]); err != nil {
				fmt.Println("op", i, ops[i].K, err)
			}
			if ops[i].K == "frame" || ops[i].K == "reset" {
				fmt.Println("op", i, ops[i].K, "len", len(ops[i].Data))
			}
		}
		st.Close()
		st, _ = hg.NewBadgerStore(4, dir, false, quietBadger())
		for r, want := range m.frames {
			f, err := st.VDbGetFrame(r)
			if err != nil {
				fmt.Println("frame", r, err)
				continue
			}
			got, _ := f.Marshal()
			a, b := canon(want), canon(got)
			fmt.Println("frame", r, "equal", a == b, len(a), len(b))
			if a != b {
				k := 0
				for k < len(a) && k < len(b) && a[k] == b[k] {
					k++
				}
				lo := k - 150
				if lo < 0 {
					lo = 0
				}
				fmt.Println("WANT:", a[lo:min(len(a), k+150)])
				fmt.Println("GOT :", b[lo:min(len(b), k+150)])
			}
		}
		st.Close()
		return 0
	}
}

func init() {
	checks["dbgund"] = func(args []string) int {
		sc := sched.ScenarioByName(args[0])
		x := sched.NewExec(sc, nil)
		defer x.Close()
		x.NoDigest = true
		max := map[int]int{}
		for _, a := range sc.Seed {
			x.Step(a)
			for _, n := range x.C.Nodes {
				if n != nil && !n.Down {
					if u := len(n.Node.VHashgraph().UndeterminedEvents); u > max[n.Idx] {
						max[n.Idx] = u
					}
				}
			}
		}
		fmt.Println("max undetermined per node:", max)
		for _, n := range x.C.Nodes {
			fmt.Printf("n%d validators=%d state=%s\n", n.Idx, len(n.Node.VCoreState().Validators), n.Node.GetState())
		}
		return 0
	}
}

func init() {
	// dbgcrashff <base> <p> <fs>: crash node 0 before write p, restart with bootstrap + fast-sync, FF, print block bookkeeping
	checks["dbgcrashff"] = func(args []string) int {
		base, p, fs := args[0], atoi(args[1]), atoi(args[2])
		dir := filepath.Join(scratchDir(), "dbgcrash")
		defer os.RemoveAll(scratchDir())
		sc, _ := crashScenario(base, p, false, dir)
		x := sched.NewExec(sc, nil)
		defer x.Close()
		for _, a := range sc.Seed {
			if x.C.Nodes[0].Down {
				break
			}
			x.Step(a)
		}
		show := func(tag string) {
			for _, n := range x.C.Nodes {
				if n == nil || n.Down {
					continue
				}
				h := n.Node.VHashgraph()
				ab := -1
				if h.AnchorBlock != nil {
					ab = *h.AnchorBlock
				}
				idx := []string{}
				for _, cr := range n.App.Commits {
					idx = append(idx, fmt.Sprintf("%d(rr%d,%dtx)", cr.Body.Index, cr.Body.RoundReceived, len(cr.Body.Transactions)))
				}
				lcr := -1
				if h.LastConsensusRound != nil {
					lcr = *h.LastConsensusRound
				}
				fmt.Printf("%s node %d: state=%s lastBlock=%d anchor=%d lcr=%d pending=%v appBlocks=%v restores=%v\n", tag, n.Idx, n.Node.GetState(), n.Store.LastBlockIndex(), ab, lcr, h.VPendingRounds(), idx, n.App.RestoreAt)
			}
		}
		show("before restart")
		x.C.Restart(0, true, fs > 0)
		show("after restart")
		ff := sched.Action{K: "FF", A: 0}
		if fs == 2 {
			ff.Fault = "reqF"
		}
		fmt.Println("FF:", x.Step(ff))
		show("after FF")
		for i := 0; i < 3; i++ {
			for a := 0; a < 3; a++ {
				for b := 0; b < 3; b++ {
					if a != b {
						if err := x.Step(sched.Action{K: "G", A: a, B: b}); err != nil {
							fmt.Printf("G(%d,%d): %v\n", a, b, err)
						}
					}
				}
			}
			show(fmt.Sprintf("after cycle %d", i))
		}
		return 0
	}
}

func init() {
	// dbgbatch <scenario>...: harvest the final DAG of each scenario, compare a pass per event with one pass at the end and a pass every 3
	checks["dbgbatch"] = func(args []string) int {
		for _, name := range args {
			sc := sched.ScenarioByName(name)
			x := sched.NewExec(sc, nil)
			x.NoDigest = true
			for _, a := range sc.Seed {
				x.Step(a)
			}
			evs := dag.Harvest(x.C)
			n := sc.Cfg.N
			x.Close()
			ref := dag.Run(evs, dag.RunOpts{N: n, CacheSize: 10000, Bare: true})
			res := ""
			for _, b := range []int{-1, 3, 5} {
				v := dag.Run(evs, dag.RunOpts{N: n, CacheSize: 10000, Bare: true, Batch: b})
				if k, d := dag.CompareKind(ref, v, true); d != "" {
					res += fmt.Sprintf(" batch=%d [%s]: %.100s;", b, k, d)
				}
			}
			fmt.Printf("%s: %d events, %d blocks:%s\n", name, len(evs), len(ref.BlockD), res)
		}
		return 0
	}
}

func init() {
	// dbgsearch <monitors,comma> <scenario-pattern with %d> <from> <to>: run the seed of each scenario with the monitors, print those with violations
	checks["dbgsearch"] = func(args []string) int {
		mons := strings.Split(args[0], ",")
		from, to := atoi(args[2]), atoi(args[3])
		for k := from; k < to; k++ {
			name := fmt.Sprintf(args[1], k)
			sc := sched.ScenarioByName(name)
			st := &mon.Stats{}
			x := sched.NewExec(sc, sched.MonitorFactory(mons, st))
			x.NoDigest = true
			for _, a := range sc.Seed {
				x.Step(a)
				if x.Dead() || len(x.Viol) > 0 {
					break
				}
			}
			if len(x.Viol) > 0 {
				fmt.Printf("%s: %s %s: %.200s\n", name, x.Viol[0].Property, x.Viol[0].Key, x.Viol[0].What)
			} else if os.Getenv("DBG_SUFFIX") != "" && !x.Dead() {
				if sr := x.FairSuffix(40); !sr.Quiescent {
					fmt.Printf("%s: not quiescent after 40 fair cycles: %s\n", name, sr.Reason)
				}
			}
			x.Close()
		}
		return 0
	}
}

func init() {
	// dbgbyz <scenario> <pos> <node> <kind>: run the seed with one Byzantine signature payload inserted at pos; count step errors before/after
	checks["dbgbyz"] = func(args []string) int {
		sc := sched.ScenarioByName(args[0])
		pos, node, kind := atoi(args[1]), atoi(args[2]), args[3]
		x := sched.NewExec(sc, nil)
		defer x.Close()
		x.NoDigest = true
		errsAfter := map[string]int{}
		for i, a := range sc.Seed {
			if i == pos {
				fmt.Println("BZ:", x.Step(sched.Action{K: "BZ", A: node, Tx: kind}))
			}
			if err := x.Step(a); err != nil && i >= pos {
				errsAfter[fmt.Sprintf("%.80s", err.Error())]++
			}
		}
		fmt.Println("step errors after the injection:", errsAfter)
		sr := x.FairSuffix(40)
		fmt.Printf("suffix %+v\n", sr)
		for _, n := range x.C.Nodes {
			h := n.Node.VHashgraph()
			ab := -1
			if h.AnchorBlock != nil {
				ab = *h.AnchorBlock
			}
			fmt.Printf("node %d: blocks=%d anchor=%d pendingSigs=%d\n", n.Idx, len(n.App.Commits), ab, h.PendingSignatures.Len())
		}
		return 0
	}
}

func init() {
	checks["dbgc17"] = func(args []string) int {
		x := c17Build(args[0])
		defer x.Close()
		cs := x.C.Nodes[0].Node.VCoreState()
		fmt.Printf("state=%s heads=%v txpool=%d selfsigs=%d busy=%v\n", x.C.Nodes[0].Node.GetState(), cs.Heads, len(cs.TxPool), len(cs.SelfSigs), cs.Busy)
		return 0
	}
}

func init() {
	// dbgdagbadger <scenario> <cache>: harvest the final DAG, run it on a default inmem reference and on a BadgerStore with the cache size
	checks["dbgdagbadger"] = func(args []string) int {
		sc := sched.ScenarioByName(args[0])
		x := sched.NewExec(sc, nil)
		x.NoDigest = true
		for _, a := range sc.Seed {
			x.Step(a)
		}
		evs := dag.Harvest(x.C)
		n := sc.Cfg.N
		x.Close()
		ref := dag.Run(evs, dag.RunOpts{N: n, CacheSize: 10000})
		v := dag.Run(evs, dag.RunOpts{N: n, CacheSize: atoi(args[1]), Badger: true, Dir: scratchDir()})
		k, d := dag.CompareKind(ref, v, true)
		fmt.Printf("%s: %d events; reference %d blocks (err %q); badger cache %s: %d blocks (err %q); compare [%s] %s\n", args[0], len(evs), len(ref.Blocks), ref.Err, args[1], len(v.Blocks), v.Err, k, d)
		return 0
	}
}

func init() {
	// dbgfame <scenario>: run the seed, print per round of node 0 the witnesses (creator index, fame)
	checks["dbgfame"] = func(args []string) int {
		sc := sched.ScenarioByName(args[0])
		x := sched.NewExec(sc, nil)
		defer x.Close()
		x.NoDigest = true
		for _, a := range sc.Seed {
			x.Step(a)
		}
		n := x.C.Nodes[0]
		for r := 0; r <= n.Store.LastRound(); r++ {
			ri, err := n.Store.GetRound(r)
			if err != nil {
				continue
			}
			s := ""
			for w, f := range ri.VFame() {
				idx := -1
				if rec := x.C.Events[w]; rec != nil {
					idx = rec.CreatorIdx
				}
				s += fmt.Sprintf(" k%d:%d", idx, f)
			}
			fmt.Printf("round %d decided=%v witnesses(fame 1=famous 2=not 0=undecided):%s\n", r, ri.VDecided(), s)
		}
		return 0
	}
}

func init() {
	// dbgff <scenario> <monitors...>: run the seed, report every fast-forward attempt that changed a node and the final state
	checks["dbgff"] = func(args []string) int {
		sc := sched.ScenarioByName(args[0])
		st := &mon.Stats{}
		x := sched.NewExec(sc, sched.MonitorFactory(args[1:], st))
		defer x.Close()
		for k, a := range sc.Seed {
			err := x.Step(a)
			if a.K == "FF" && err == nil {
				n := x.C.Nodes[a.A]
				fmt.Printf("step %d %s: node %d reset at step %d, last block %d\n", k, a.String(), a.A, n.FFStep, n.Node.GetLastBlockIndex())
			}
		}
		sr := x.FairSuffix(40)
		fmt.Printf("suffix %+v\n", sr)
		for _, n := range x.C.Nodes {
			if n != nil {
				fmt.Printf("node %d state=%s ff=%d blocks=%d events=%d\n", n.Idx, n.Node.GetState(), n.FFStep, n.Node.GetLastBlockIndex(), len(n.Has))
			}
		}
		for _, v := range x.Viol {
			fmt.Println("VIOL", v.Property, v.Key, v.What[:min(len(v.What), 300)])
		}
		return 0
	}
}

func init() {
	// dbgwindow <scenario>: the in-flight window ladder of C03's cache variant for the final DAG of a scenario
	checks["dbgwindow"] = func(args []string) int {
		sc := sched.ScenarioByName(args[0])
		x := sched.NewExec(sc, nil)
		x.NoDigest = true
		for _, a := range sc.Seed {
			x.Step(a)
		}
		evs := dag.Harvest(x.C)
		n := sc.Cfg.N
		x.Close()
		ref := dag.Run(evs, dag.RunOpts{N: n, CacheSize: 10000})
		fmt.Println("events", len(evs), "ref err", ref.Err, "blocks", len(ref.BlockD))
		for _, sz := range []int{400, 200, 120, 80, 60, 50, 40, 30, 25, 20, 15, 10, 7, 5} {
			v := dag.Run(evs, dag.RunOpts{N: n, CacheSize: sz, Record: true})
			fmt.Printf("cache %d: misses %d err %.80s blocks %d\n", sz, v.Misses, v.Err, len(v.BlockD))
			if v.Misses > 0 || v.Err != "" {
				break
			}
		}
		return 0
	}
}
