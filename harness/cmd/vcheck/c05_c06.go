package main

import (
	"fmt"
	"strconv"
	"strings"
	"time"

	hg "github.com/mosaicnetworks/babble/src/hashgraph"
	"verif/harness/ev"
	"verif/harness/sched"
	"verif/harness/sim"
)

func init() {
	// "faultstore:<n>:<steps>:<node>:<k>": static n with the k-th new self-event of <node> failing once in the store
	sched.RegisterScenario("faultstore", func(p []string) *sched.Scenario {
		n, _ := strconv.Atoi(p[1])
		steps, _ := strconv.Atoi(p[2])
		node, _ := strconv.Atoi(p[3])
		k, _ := strconv.Atoi(p[4])
		sc := sched.Static(n, steps)
		sc.Cfg.WrapStore = func(idx int, s hg.Store) hg.Store {
			if idx != node {
				return s
			}
			return &sim.FaultStore{Store: s, Self: sim.PubHex(idx), FailAt: k}
		}
		return sc
	})

	sched.ExecHook = func(x *sched.Exec, res *sched.Result) {
		for _, n := range x.C.Nodes {
			if n == nil {
				continue
			}
			if fs, ok := n.Store.(*sim.FaultStore); ok {
				res.Counters["store_faults_fired"] += fs.Fired
			}
		}
		res.Counters["step_errors_observed"] += len(x.C.Errors)
		for _, n := range x.C.Nodes {
			if n == nil || n.FFStep < 0 || len(n.App.Restores) == 0 {
				continue
			}
			res.Counters["ff_done"]++
			if n.Stalled > 0 {
				res.Counters["ff_stalled_nodes"]++
			}
			res.Counters["ff_blocks_after_reset"] += len(n.App.Commits)
		}
	}

	checks["C05"] = func(args []string) int {
		th := ev.Tier() == "thorough"
		mons := []string{"C01", "C05"}
		var ph []Phase
		add := func(name string, items []sched.Item) { ph = append(ph, Phase{Name: name, Items: items}) }
		d := 5
		if th {
			d = 6
		}
		add(fmt.Sprintf("S1 n=2 depth %d {G,T,G lim=1,G eager-response-lost}", d), s1Items("s1:2:1", d, 2, mons))
		add("S1 n=2 depth 7 {G01,G10,T0,T1}", s1Items("s1:2:0", 7, 2, mons))
		// single store-fault injection: every self-event position of every node
		var fi []sched.Item
		for node := 0; node < 3; node++ {
			for k := 1; k <= 24; k++ {
				fi = append(fi, sched.Item{Scenario: fmt.Sprintf("faultstore:3:45:%d:%d", node, k), Mode: "s3", Mons: mons, Suffix: 40})
			}
		}
		add("store failure on the k-th self-event, k=1..24, each of 3 nodes (static3 seed)", fi)
		// submissions of all shapes, all faults, truncations, nested submissions
		alpha := devAlphabet(nodesOf(3), 1, 0)
		for i := 0; i < 3; i++ {
			for _, k := range []string{"TE", "TB", "TD"} {
				alpha = append(alpha, sched.Dev{Alt: sched.Action{K: k, A: i}, Ins: true})
			}
		}
		stride := 2
		if th {
			stride = 1
		}
		add(fmt.Sprintf("S3 d<=1 static3 (every %d. position; all faults, truncations, pull-only, nested submissions/deliveries, empty/binary/duplicate transactions)", stride),
			s3Items(scStatic3, 1, seedPositions(scStatic3, 0, 0, stride), alpha, mons, 40))
		add("S3 d<=1 join3to4 (every 4th position, level 0)", s3Items(scJoin3, 1, seedPositions(scJoin3, 1, 0, 4), devAlphabet(nodesOf(4), 0, 0), mons, 40))
		add("identical transaction bytes submitted repeatedly at one node and at several nodes (static3): d=0 and d<=1 (every 3rd position, level 0)",
			append(s3Items(scDups3, 0, nil, nil, mons, 40), s3Items(scDups3, 1, seedPositions(scDups3, 0, 0, 3), devAlphabet(nodesOf(3), 0, 0), mons, 40)...))
		// bursts: many transactions pending at once when a node records its next event
		{
			var bi []sched.Item
			for _, k := range []int{33, 101, 150, 260, 1030} {
				bi = append(bi, s3Items(fmt.Sprintf("burst:3:7:%d:30", k), 0, nil, nil, mons, 40)...)
			}
			bi = append(bi, s3Items("burst:3:7:150:30", 1, seedPositions("burst:3:7:150:30", 150, 0, 7), devAlphabet(nodesOf(3), 0, 0), mons, 40)...)
			add("bursts of 33/101/150/260/1030 submissions pending at once at validator 0, then at validator 1 (static3): d=0; d<=1 after the first burst of 150 (every 7th position, level 0)", bi)
		}
		// transactions accepted by a node that then fast-forwards (a catching-up joiner; a validator restarted empty)
		{
			var ffItems []sched.Item
			ffPositions := []int{28, 44, 60}
			if th {
				ffPositions = []int{24, 28, 36, 44, 52, 60, 76}
			}
			for _, ffpos := range ffPositions {
				name := fmt.Sprintf("ffjoin:3:5:110:%d:0:0", ffpos)
				var devs []sched.Dev
				for _, k := range []string{"T", "TD", "TE"} {
					devs = append(devs, sched.Dev{Alt: sched.Action{K: k, A: 3}, Ins: true})
				}
				// the joiner exists from seed position 7 on; submissions before, at and after the fast-forward
				ffItems = append(ffItems, s3Items(name, 1, []int{8, ffpos - 6, ffpos + 1, ffpos + 2, ffpos + 8}, devs, mons, 40)...)
			}
			for _, ffpos := range []int{30, 44} {
				name := fmt.Sprintf("ffrestart:4:80:3:20:%d:0", ffpos)
				devs := []sched.Dev{{Alt: sched.Action{K: "T", A: 3}, Ins: true}}
				ffItems = append(ffItems, s3Items(name, 1, []int{ffpos, ffpos + 1}, devs, mons, 40)...)
			}
			add("submissions at a node before / around its fast-forward (joiner with fast-sync; validator restarted empty)", ffItems)
		}
		if th {
			// two faults/shapes in one run around the first commits
			small := []sched.Dev{}
			for _, a := range alpha {
				if a.Alt.Fault != "" || a.Alt.Lim == 1 || a.Alt.K == "TD" || a.Alt.K == "TE" || a.Alt.Nest != nil && a.Alt.Nest.K == "T" {
					small = append(small, a)
				}
			}
			add("S3 d=2 static3 (positions 10..30 step 4; faults, lim=1, nested/duplicate/empty submissions)", s3Items(scStatic3, 2, seedPositions(scStatic3, 10, 31, 4), small, mons, 40))
			add("S3 d<=1 static4 (every 2nd position, full alphabet)", s3Items(scStatic4, 1, seedPositions(scStatic4, 0, 0, 2), devAlphabet(nodesOf(4), 1, 0), mons, 40))
		}
		b := 170 * time.Second
		if th {
			b = 40 * time.Minute
		}
		return runCluster(ClusterCheck{
			Prop: "C05", Level: "model_checking", Budget: budget(b), Phases: ph, Floor: 50,
			AlsoProps: []string{"C06"},
			Rule: "executions = all sequences to the stated depth over an alphabet with truncated and failed exchanges (S1), every position of a single injected store failure on a node's own new event, and all single (thorough: double) deviations of a fair seed over {other pair, sync limit 1/3, request/response loss on pull and push, pull-only, submission nested at a lock-release point, foreign delivery nested at a lock-release point, empty/binary/duplicate-content submission}; " +
				"oracle after every step: delivered multiset within submitted multiset per node (byte for byte, nothing twice); for every node pool + payloads of its own events = accepted (nothing lost, nothing in two events; same for membership requests); after the fair suffix every accepted transaction is delivered everywhere (a non-quiescent suffix is reported). distinct_nontrivial as for C01",
		})
	}

	// "idle:<n>": n validators brought to a quiescent state (everything committed, nobody busy) by a fair
	// seed and four all-pairs cycles; the window alphabet then lets node n-1 accept work, hand it to one
	// peer only and fall silent for good.
	sched.RegisterScenario("idle", func(p []string) *sched.Scenario {
		n, _ := strconv.Atoi(p[1])
		sc := &sched.Scenario{Cfg: sim.Config{N: n}}
		sc.Setup = sched.FairSeed(nodesOf(n), 5*n, 4)
		cycles := 4
		if len(p) > 2 {
			if v, err := strconv.Atoi(p[2]); err == nil {
				cycles = v
			}
		}
		for cyc := 0; cyc < cycles; cyc++ {
			for i := 0; i < n; i++ {
				for j := 0; j < n; j++ {
					if i != j {
						sc.Setup = append(sc.Setup, sched.Action{K: "G", A: i, B: j})
					}
				}
			}
		}
		// roles: A pulls from S, S pulls from O, S accepts work and may fall silent for good
		a, s, o := 0, n-1, 1
		for i := 2; i+2 < len(p); i++ {
			if p[i] == "roles" {
				a, _ = strconv.Atoi(p[i+1])
				s, _ = strconv.Atoi(p[i+2])
				o = 0
				for o == a || o == s {
					o++
				}
			}
		}
		sc.Alphabet = []sched.Action{{K: "P", A: a, B: s}, {K: "P", A: s, B: o}, {K: "T", A: s}, {K: "S", A: s}, {K: "G", A: a, B: o}}
		if len(p) > 2 && p[len(p)-1] == "wide" {
			sc.Alphabet = append(sc.Alphabet, sched.Action{K: "P", A: o, B: s}, sched.Action{K: "G", A: s, B: a}, sched.Action{K: "T", A: a}, sched.Action{K: "P", A: a, B: o})
		}
		return sc
	})

	checks["C06"] = func(args []string) int {
		th := ev.Tier() == "thorough"
		mons := []string{"C01"}
		ph := standardPhases(mons, 40, th)
		d := 6
		if th {
			d = 8
		}
		extra := []Phase{
			{Name: fmt.Sprintf("S1 n=2 depth %d then fair suffix", d), Items: withSuffix(s1Items("s1:2:0", d, 2, mons), 40)},
			{Name: "S1 n=2 depth 5 with truncated/lost exchanges then fair suffix", Items: withSuffix(s1Items("s1:2:1", 5, 2, mons), 40)},
			{Name: "S1 n=3 depth 4 then fair suffix", Items: withSuffix(s1Items("s1:3:0", 4, 2, mons), 40)},
			{Name: "S1 n=1 depth 8 then monologue suffix", Items: withSuffix(s1Items("s1:1:0", 8, 2, mons), 40)},
		}
		// from a quiescent 4-validator network (where idle nodes hold parked heads of others): every role
		// assignment (A pulls from S, S pulls from O) in which A holds a parked event of S or not
		idleDepth, wide := 4, ""
		if th {
			// (about 0.14 s per execution: depth 5 over the wide alphabet is what fits the thorough budget; the phase runs last)
			idleDepth, wide = 5, ":wide"
		}
		var idleItems []sched.Item
		nIdle := 0
		for _, roles := range [][2]int{{1, 0}, {0, 1}, {0, 3}, {2, 0}} {
			name := fmt.Sprintf("idle:4:4:roles:%d:%d%s", roles[0], roles[1], wide)
			nIdle = len(sched.ScenarioByName(name).Alphabet)
			idleItems = append(idleItems, s2Items(name, []int{0}, idleDepth, nIdle, mons, 40)...)
		}
		idlePhase := Phase{Name: fmt.Sprintf("S2 from a quiescent 4-validator network, 4 role assignments (A,S): all sequences of length %d over %d actions (A pulls from S, S pulls from a third validator, submission at S, S silent for good, other gossip), then the fair suffix among the rest", idleDepth, nIdle),
			Items: idleItems}
		if !th {
			extra = append(extra, idlePhase)
		}
		// a validator that comes back: restarted empty with fast-sync, or from its database (bootstrap) with fast-sync
		// enabled; its own newer events come back to it from its peers. Runs in which it unknowingly reused a height
		// (equivocation) are outside the property and only counted.
		{
			var rs []sched.Item
			stride := 4
			if th {
				stride = 1
			}
			for down := 8; down <= 40; down += stride {
				for _, gap := range []int{4, 16, 28} {
					rs = append(rs, sched.Item{Scenario: fmt.Sprintf("ffrestart:4:90:3:%d:%d:0", down, down+gap), Mode: "s3", Mons: mons, Suffix: 40})
					rs = append(rs, sched.Item{Scenario: fmt.Sprintf("ffboot:3:100:2:%d:%d:0", down+2, down+2+gap), Mode: "s3", Mons: mons, Suffix: 40})
				}
			}
			extra = append(extra, Phase{Name: "a validator stops at d and comes back 4/16/28 steps later (restarted empty with fast-sync, n=4; restarted from its database with fast-sync enabled, n=3), then the seed goes on and the fair suffix follows", Items: rs})
		}
		// a leaving validator that is silent already, and a second validator that stops at every possible later moment
		{
			var ls []sched.Item
			for p := 0; p <= 72; p++ {
				ls = append(ls, sched.Item{Scenario: fmt.Sprintf("leavesilent:8:%d:24", p), Mode: "s3", Mons: mons, Suffix: 40})
			}
			extra = append(extra, Phase{Name: "5 validators, the leaving one silent, a second one stops p steps later (p = 0..72); judged when, at that moment, every remaining validator has a head in or after the round from which the set has four members", Items: ls})
		}
		// the standard S1 phases without suffix add nothing for liveness: keep the S3 phases only
		var keep []Phase
		for _, p := range ph {
			if strings.HasPrefix(p.Name, "S1 ") {
				continue
			}
			if !th && (strings.HasPrefix(p.Name, "S3 d<=1 join") || strings.HasPrefix(p.Name, "S3 d<=1 leave") || strings.HasPrefix(p.Name, "S3 d<=1 static4")) {
				// quick tier: every second deviation of these phases (C01/C10 run them in full)
				var half []sched.Item
				for i, it := range p.Items {
					if i%2 == 0 {
						half = append(half, it)
					}
				}
				p.Items = half
				p.Name += " [every second deviation]"
			}
			keep = append(keep, p)
		}
		// the seeds themselves first (one execution each, and the place where whole classes of history enter)
		var first, rest []Phase
		for _, p := range keep {
			if strings.HasPrefix(p.Name, "S3 d=0") {
				first = append(first, p)
			} else {
				rest = append(rest, p)
			}
		}
		ph = append(append(first, extra...), rest...)
		if th {
			ph = append(ph, idlePhase)
		}
		b := 200 * time.Second
		if th {
			b = 45 * time.Minute
		}
		return runCluster(ClusterCheck{
			Prop: "C06", Level: "model_checking", Budget: budget(b), Phases: ph, Floor: 50,
			Rule: "every explored prefix (all sequences to the stated depth; all schedules within the stated deviations of the seeds, incl. truncated / lost exchanges and one validator of 4 or 5 silent from some point) is followed by fair all-pairs cycles among the live nodes; bounded liveness as a safety property: within 40 cycles all live nodes are idle (!busy), every transaction and membership request accepted by a live node and every payload-carrying event held by a live node at suffix start is committed at all of them, chains have equal length (C01 monitor checks equality of content); runs in which a restarted validator reused a height it had used before (equivocation) are excluded and counted. max_fair_cycles_to_quiescence reports the margin",
			Extra: func(cov map[string]interface{}, agg *Agg) {
				cov["cycle_bound"] = 40
			},
		})
	}
}

func withSuffix(items []sched.Item, cycles int) []sched.Item {
	for i := range items {
		items[i].Suffix = cycles
	}
	return items
}
