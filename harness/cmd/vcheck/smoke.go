package main

import (
	"fmt"
	"os"
	"sort"
	"time"

	"verif/harness/mon"
	"verif/harness/sched"
)

func init() {
	checks["smoke"] = func(args []string) int {
		name := "static3"
		if len(args) > 0 {
			name = args[0]
		}
		var sc *sched.Scenario
		switch name {
		case "static3":
			sc = sched.Static(3, 60)
		case "static4":
			sc = sched.Static(4, 80)
		case "static2":
			sc = sched.Static(2, 30)
		case "static1":
			sc = sched.Static(1, 12)
		case "join3":
			sc = sched.Join(3, 5, 90)
		case "leave4":
			sc = sched.Leave(4, 6, 90)
		case "late4":
			sc = sched.LateWitness(40)
		default:
			sc = sched.ScenarioByName(name)
		}
		st := &mon.Stats{}
		mons := []mon.Monitor{mon.NewAgreement(st), mon.NewFinality()}
		if len(args) > 1 {
			mons = sched.MonitorFactory(args[1:], st)
		}
		quiet := os.Getenv("SMOKE_QUIET") != ""
		t0 := time.Now()
		x := sched.NewExec(sc, mons)
		defer x.Close()
		for k, a := range sc.Seed {
			err := x.Step(a)
			line := fmt.Sprintf("%3d %-14s", k, a.String())
			for _, n := range x.C.Nodes {
				if n == nil {
					continue
				}
				cs := n.Node.VCoreState()
				h := n.Node.VHashgraph()
				line += fmt.Sprintf(" | n%d %s ev=%d blk=%d lcr=%d und=%d busy=%v", n.Idx, n.Node.GetState().String()[:3], len(n.Has), n.Node.GetLastBlockIndex(), n.Node.GetLastConsensusRoundIndex(), len(h.UndeterminedEvents), cs.Busy)
			}
			if err != nil {
				line += " ERR " + err.Error()
			}
			if !quiet {
				fmt.Println(line)
			}
			if x.Dead() {
				fmt.Println(x.C.Panic)
				return 1
			}
		}
		sr := x.FairSuffix(40)
		fmt.Printf("suffix: %+v\n", sr)
		if !sr.Quiescent && os.Getenv("SMOKE_PROBE") != "" {
			cnt := map[string]int{}
			for _, e := range x.C.Errors {
				if len(e) > 160 {
					e = e[:160]
				}
				cnt[e]++
			}
			for e, k := range cnt {
				if k > 3 {
					fmt.Printf("probe: error x%d: %s\n", k, e)
				}
			}
			for _, n := range x.C.Nodes {
				if n != nil && !n.Down && n.Node.VCoreState().Busy {
					err := x.Step(sched.Action{K: "G", A: n.Idx, B: (n.Idx + 1) % len(x.C.Nodes)})
					cs := n.Node.VCoreState()
					fmt.Printf("probe: gossip by busy node %d: err=%v head=%.10s seq=%d accepted=%d removed=%d lastRound=%d heads=%v\n", n.Idx, err, cs.Head, cs.Seq, cs.AcceptedRound, cs.RemovedRound, n.Store.LastRound(), cs.Heads)
				}
			}
		}
		for _, n := range x.C.Nodes {
			if n != nil {
				all, _ := n.Node.GetAllValidatorSets()
				rs := []string{}
				for r, ps := range all {
					rs = append(rs, fmt.Sprintf("%d:%d", r, len(ps)))
				}
				sort.Strings(rs)
				fmt.Printf("node %d: blocks=%d state=%s peersets=%v ffstep=%d stalled=%d\n", n.Idx, len(n.App.Commits), n.Node.GetState(), rs, n.FFStep, n.Stalled)
				if cs := n.Node.VCoreState(); cs.Busy {
					h := n.Node.VHashgraph()
					lcr := -1
					if h.LastConsensusRound != nil {
						lcr = *h.LastConsensusRound
					}
					fmt.Printf("   busy: pendingLoadedEvents=%d txpool=%d itxpool=%d selfsigs=%d lastConsensusRound=%d targetRound=%d\n", h.PendingLoadedEvents, len(cs.TxPool), len(cs.ItxPool), len(cs.SelfSigs), lcr, cs.TargetRound)
				}
			}
		}
		fmt.Printf("steps=%d violations=%d digests=%d stats=%+v time=%v\n", x.Steps, len(x.Viol), len(x.Digests), *st, time.Since(t0))
		for _, v := range x.Viol {
			fmt.Println("VIOL", v.Property, v.Key, v.What)
		}
		return 0
	}
}
