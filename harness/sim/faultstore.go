package sim

import (
	"fmt"

	hg "github.com/mosaicnetworks/babble/src/hashgraph"
)

// FaultStore fails the first SetEvent of the FailAt-th *new* event created by
// Self, once, before delegating (the failed insertion leaves no trace in the
// store, so the node legitimately keeps running).
type FaultStore struct {
	hg.Store
	Self   string
	FailAt int
	Count  int
	Fired  int
}

func (s *FaultStore) SetEvent(e *hg.Event) error {
	if e.Creator() == s.Self {
		if _, err := s.Store.GetEvent(e.Hex()); err != nil {
			s.Count++
			if s.Count == s.FailAt {
				s.Fired++
				return fmt.Errorf("harness: injected store failure on self-event #%d", s.Count)
			}
		}
	}
	return s.Store.SetEvent(e)
}
