package sim

import (
	"os"
	"syscall"

	"github.com/dgraph-io/badger"
	hg "github.com/mosaicnetworks/babble/src/hashgraph"
	"github.com/mosaicnetworks/babble/src/peers"
)

// CrashSentinel is the panic value that models "the process died here".
type CrashSentinel struct{ Node, Write int }

// CrashStore counts the durable write calls of a node's store and "crashes"
// the node before the At-th one (At <= 0: never). Kill=true kills the whole
// process with SIGKILL instead (crash-model validation in a child process).
type CrashStore struct {
	hg.Store
	Node    int
	At      int
	Kill    bool
	Writes  int
	Written map[string]bool // events whose first SetEvent returned
	Order   []string
	Creator map[string]string
	Index   map[string]int
	Log     []string
	armed   bool
}

// Arm installs the store's counter as Badger's commit hook: from now on a "write" is one database
// transaction (a Store call may consist of several), and the node dies before the At-th one. Disarm removes it.
func (s *CrashStore) Arm() {
	s.armed = true
	badger.VerifBeforeCommit = func() { s.tickCommit() }
}

func Disarm() { badger.VerifBeforeCommit = nil }

func (s *CrashStore) tickCommit() {
	s.Writes++
	if s.At > 0 && s.Writes == s.At {
		if s.Kill {
			syscall.Kill(os.Getpid(), syscall.SIGKILL)
			select {}
		}
		panic(CrashSentinel{Node: s.Node, Write: s.Writes})
	}
}

func (s *CrashStore) tick(kind string) {
	if s.armed {
		return // counted per database transaction instead
	}
	s.Writes++
	if s.At > 0 && s.Writes == s.At {
		if s.Kill {
			syscall.Kill(os.Getpid(), syscall.SIGKILL)
			select {}
		}
		panic(CrashSentinel{Node: s.Node, Write: s.Writes})
	}
}

func (s *CrashStore) SetEvent(e *hg.Event) error {
	s.tick("event")
	err := s.Store.SetEvent(e)
	if err == nil && !s.Written[e.Hex()] {
		s.Written[e.Hex()] = true
		s.Order = append(s.Order, e.Hex())
		if s.Creator == nil {
			s.Creator, s.Index = map[string]string{}, map[string]int{}
		}
		s.Creator[e.Hex()] = e.Creator()
		s.Index[e.Hex()] = e.Index()
	}
	return err
}
func (s *CrashStore) SetRound(r int, ri *hg.RoundInfo) error {
	s.tick("round")
	return s.Store.SetRound(r, ri)
}
func (s *CrashStore) SetBlock(b *hg.Block) error {
	s.tick("block")
	return s.Store.SetBlock(b)
}
func (s *CrashStore) SetFrame(f *hg.Frame) error {
	s.tick("frame")
	return s.Store.SetFrame(f)
}
func (s *CrashStore) SetPeerSet(r int, ps *peers.PeerSet) error {
	s.tick("peerset")
	return s.Store.SetPeerSet(r, ps)
}
