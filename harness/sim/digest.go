package sim

import (
	"crypto/sha256"
	"encoding/binary"
	"fmt"
	"sort"
	"strings"
)

// insertion chain: per node, a hash chain over the events in the order the
// node's hashgraph inserted them (private topological index).
func (c *Cluster) updateChains() {
	for _, n := range c.Nodes {
		if n == nil || n.Down {
			continue
		}
		if len(n.pending) == 0 {
			continue
		}
		type te struct {
			hex string
			ti  int
		}
		var l []te
		for _, h := range n.pending {
			e, err := n.Store.GetEvent(h)
			ti := -1
			if err == nil {
				ti = e.VInfo().TopologicalIndex
			}
			l = append(l, te{h, ti})
		}
		n.pending = n.pending[:0]
		sort.Slice(l, func(i, j int) bool {
			if l[i].ti != l[j].ti {
				return l[i].ti < l[j].ti
			}
			return l[i].hex < l[j].hex
		})
		for _, x := range l {
			hh := sha256.New()
			hh.Write(n.chain[:])
			hh.Write([]byte(x.hex))
			copy(n.chain[:], hh.Sum(nil))
		}
	}
}

// Digest is a canonical digest of the whole cluster state: equal digests mean
// equal per-node insertion sequences, pools, heads, consensus progress,
// blocks (with signer sets), validator-set tables, node states and clocks.
func (c *Cluster) Digest() uint64 { return c.digest(true) }

// DataDigest is Digest without the nodes' state-machine state (Babbling,
// CatchingUp, …): hashgraph, store, validator sets, pools, application only.
func (c *Cluster) DataDigest() uint64 { return c.digest(false) }

func (c *Cluster) digest(withState bool) uint64 {
	c.updateChains()
	h := sha256.New()
	for _, n := range c.Nodes {
		if n == nil {
			h.Write([]byte("nil|"))
			continue
		}
		fmt.Fprintf(h, "N%d|down=%v|silent=%v|ff=%v|ticks=%d|", n.Idx, n.Down, n.Silent, n.FFStep >= 0, n.Ticks)
		if n.Down {
			continue
		}
		h.Write(n.chain[:])
		cs := n.Node.VCoreState()
		hgr := n.Node.VHashgraph()
		if withState {
			fmt.Fprintf(h, "|st=%d", n.Node.GetState())
		}
		fmt.Fprintf(h, "|head=%s|seq=%d|ar=%d|rr=%d|tr=%d|", cs.Head, cs.Seq, cs.AcceptedRound, cs.RemovedRound, cs.TargetRound)
		for _, tx := range cs.TxPool {
			fmt.Fprintf(h, "tx:%x,", tx)
		}
		for _, it := range cs.ItxPool {
			fmt.Fprintf(h, "itx:%d:%s,", it.Body.Type, it.Body.Peer.PubKeyHex)
		}
		sigs := []string{}
		for _, s := range cs.SelfSigs {
			sigs = append(sigs, s.Key())
		}
		sort.Strings(sigs)
		fmt.Fprintf(h, "ss:%s|", strings.Join(sigs, ","))
		ps := hgr.PendingSignatures.VKeys()
		sort.Strings(ps)
		fmt.Fprintf(h, "ps:%s|", strings.Join(ps, ","))
		ids := []int{}
		for id := range cs.Heads {
			ids = append(ids, int(id))
		}
		sort.Ints(ids)
		for _, id := range ids {
			fmt.Fprintf(h, "hd:%d=%s,", id, cs.Heads[uint32(id)])
		}
		fmt.Fprintf(h, "|und:%s|", strings.Join(hgr.UndeterminedEvents, ","))
		fmt.Fprintf(h, "pr:%v|", hgr.VPendingRounds())
		if hgr.LastConsensusRound != nil {
			fmt.Fprintf(h, "lcr:%d|", *hgr.LastConsensusRound)
		}
		if hgr.AnchorBlock != nil {
			fmt.Fprintf(h, "anchor:%d|", *hgr.AnchorBlock)
		}
		// (the insertion counter is stored with every event and keys the database's topological listing)
		fmt.Fprintf(h, "ple:%d|topo:%d|app:%x/%d|", hgr.PendingLoadedEvents, hgr.VTopologicalIndex(), n.App.State, len(n.App.Commits))
		last := n.Store.LastBlockIndex()
		for i := 0; i <= last; i++ {
			b, err := n.Store.GetBlock(i)
			if err != nil {
				continue
			}
			ss := []string{}
			for s := range b.Signatures {
				ss = append(ss, s)
			}
			sort.Strings(ss)
			fmt.Fprintf(h, "b%d:%d:%s,", i, len(b.Transactions()), strings.Join(ss, ","))
		}
		all, _ := n.Store.GetAllPeerSets()
		rs := []int{}
		for r := range all {
			rs = append(rs, r)
		}
		sort.Ints(rs)
		for _, r := range rs {
			fmt.Fprintf(h, "ps%d:", r)
			for _, p := range all[r] {
				fmt.Fprintf(h, "%d,", c.PeerIdx[p.PubKeyString()])
			}
		}
		for _, p := range cs.Peers {
			fmt.Fprintf(h, "p%d,", c.PeerIdx[p.PubKeyString()])
		}
	}
	sum := h.Sum(nil)
	return binary.BigEndian.Uint64(sum[:8])
}
