// Package sim is the closed-system driver: a cluster of real babble Nodes over
// a synchronous harness transport, a deterministic application, harness keys
// and a harness clock.
package sim

import (
	"crypto/ecdsa"
	"crypto/rand"
	"crypto/sha256"
	"fmt"

	"github.com/mosaicnetworks/babble/src/crypto/keys"
	hg "github.com/mosaicnetworks/babble/src/hashgraph"
)

// constReader is a constant, non-zero byte stream. With go1.23's ecdsa.Sign on
// secp256k1 the nonce is then a function of (key, digest) only. (An all-zero
// stream makes randFieldElement loop forever.)
type constReader struct{}

func (constReader) Read(p []byte) (int, error) {
	for i := range p {
		p[i] = 0x2a
	}
	return len(p), nil
}

// Clock seam ----------------------------------------------------------------

// BaseTime is the origin of all harness clocks.
const BaseTime int64 = 1600000000

// nowFn is what hashgraph.NewEvent sees as "time.Now().Unix()".
var nowFn = func() int64 { return BaseTime }

// SetNow installs the function returning the current harness time.
func SetNow(f func() int64) { nowFn = f }

func init() {
	rand.Reader = constReader{}
	hg.VSetClock(func() int64 { return nowFn() })
}

// Keys ----------------------------------------------------------------------

var keyCache = map[int]*ecdsa.PrivateKey{}

// Key returns the i-th fixed harness key (secp256k1 scalar = sha256("verif-key-i")).
// KeyShift maps node index i to harness key i+KeyShift while a cluster of
// "strangers" is being built (C14); 0 otherwise.
var KeyShift = 0

func Key(i int) *ecdsa.PrivateKey {
	i += KeyShift
	if k, ok := keyCache[i]; ok {
		return k
	}
	for salt := 0; ; salt++ {
		d := sha256.Sum256([]byte(fmt.Sprintf("verif-key-%d-%d", i, salt)))
		k, err := keys.ParsePrivateKey(d[:])
		if err == nil {
			keyCache[i] = k
			return k
		}
	}
}

// PubHex returns the 0X… public key string of key i.
func PubHex(i int) string { return keys.PublicKeyHex(&Key(i).PublicKey) }
