package sim

import (
	"crypto/ecdsa"
	"encoding/json"
	"fmt"
	"os"
	"path/filepath"
	"runtime/debug"
	"sort"
	"strings"

	"github.com/mosaicnetworks/babble/src/config"
	"github.com/mosaicnetworks/babble/src/crypto/keys"
	hg "github.com/mosaicnetworks/babble/src/hashgraph"
	"github.com/mosaicnetworks/babble/src/net"
	"github.com/mosaicnetworks/babble/src/node"
	"github.com/mosaicnetworks/babble/src/node/state"
	"github.com/mosaicnetworks/babble/src/peers"
	"github.com/mosaicnetworks/babble/src/proxy"
	"github.com/mosaicnetworks/babble/src/proxy/inmem"
)

// Config describes a closed system.
type Config struct {
	// WrapProxy, when set, may replace the application proxy node i is built with (the in-process proxy `inm`
	// around `app` stays the submission path)
	WrapProxy    func(i int, app *App, inm proxy.AppProxy) proxy.AppProxy
	N            int // genesis validators: keys 0..N-1
	CacheSize    int
	SyncLimit    int
	SuspendLimit int
	FastSync     bool         // EnableFastSync for nodes created later (joiners)
	FastSyncOf   map[int]bool // genesis validators that run with EnableFastSync
	Badger       map[int]bool // nodes running on a BadgerStore
	Dir          string       // scratch dir for Badger stores
	JSONWire     bool         // pass every message through encoding/json like the TCP transport
	RefuseJoin   map[int]bool // the application refuses PEER_ADD of these key indexes
	Liars        map[int]func(tick int) int64
	SelfOnly     map[int]bool         // nodes started with a peer list that contains only themselves (genesis peers as configured)
	CommitFault  map[int]map[int]bool // node → numbers of the commit calls that are applied but answered with an error
	Skew         map[int]int64        // honest nodes whose clock is ahead (or behind) by a constant
	WrapStore    func(idx int, s hg.Store) hg.Store
	Maintenance  map[int]bool // nodes (re)started in maintenance mode
	CacheOf      map[int]int  // per-node cache size (overrides CacheSize)
	Solo         bool         // only node 0 is started (DAG engine: one hashgraph fed by the harness)
	BootstrapDir string       // node 0 opens this existing Badger directory with Bootstrap=true
}

func (c Config) withDefaults() Config {
	if c.CacheSize == 0 {
		c.CacheSize = 10000
	}
	if c.SyncLimit == 0 {
		c.SyncLimit = 1000
	}
	if c.SuspendLimit == 0 {
		c.SuspendLimit = 100
	}
	return c
}

// EvRec is the harness's own record of an event.
type EvRec struct {
	Hex         string
	Creator     string // pub key hex (upper)
	CreatorIdx  int    // key index, -1 if unknown
	Index       int
	SelfParent  string
	OtherParent string
	Txs         [][]byte
	Itxs        []hg.InternalTransaction
	Sigs        []hg.BlockSignature
	Timestamp   int64
	Signature   string
	FirstStep   int
}

// SimNode is one participant.
type SimNode struct {
	Idx        int
	Key        *ecdsa.PrivateKey
	Pub        string
	Peer       *peers.Peer
	Conf       *config.Config
	Node       *node.Node
	App        *App
	Store      hg.Store
	Trans      *Transport
	Prox       *inmem.InmemProxy
	Configured []string // public keys of the peer list the node was started with
	Silent     bool     // neither initiates nor answers
	Down       bool     // crashed / not yet started
	Restarted  bool     // re-created from its store (pools were lost)
	KeepDir    bool     // do not delete Dir on Close
	Stalled    int      // insertion errors seen by this node after a fast-forward (documented limitation: ends the C13 obligation)
	Ticks      int
	FFStep     int // step of the last fast-forward (-1: full history)
	Has        map[string]bool
	known      map[uint32]int
	Dir        string
	pending    []string // events seen since the last digest (for the insertion chain)
	chain      [32]byte
	Submits    [][]byte // transactions accepted by this node (addTransaction returned)
	Itxs       []hg.InternalTransaction
}

// FullHistory is true for nodes that never reset from a frame.
func (n *SimNode) FullHistory() bool { return n.FFStep < 0 }

// Plan describes faults/overrides for the exchanges of one step.
type Plan struct {
	DropReq    map[string]bool // kind → request lost
	DropResp   map[string]bool // kind → response lost (responder acted)
	SyncLimit  int             // >0: requester's sync limit for this exchange
	FFFrom     int             // k+1: only node k answers fast-forward requests (0: everybody)
	ForceOK    bool            // a hostile responder: the (mutated) response is returned without the responder's error
	MutateReq  func(kind string, args interface{}) interface{}
	MutateResp func(kind string, resp interface{}) interface{}
	// Answer: a hostile responder that answers by itself (the real handler of the target is not run)
	Answer func(kind string, args interface{}) (interface{}, bool)
	// AnswerAs restricts Answer to requests addressed to this node index (-1 / unset with AnswerAsSet=false: all)
	AnswerAs    int
	AnswerAsSet bool
	// Hook is called at the lock-release points: phase "pre" (before the
	// request reaches the target) and "post" (after the target answered).
	Hook func(from, to int, kind, phase string)
}

// Cluster is a closed system of real nodes.
type Cluster struct {
	Cfg     Config
	Nodes   []*SimNode
	ByAddr  map[string]*SimNode
	Genesis []*peers.Peer
	Step    int
	Trace   []string
	Events  map[string]*EvRec
	EvOrder []string
	active  int
	depth   int
	plan    *Plan
	Panic   string
	// Outside, when set by a scenario's own action, says why the rest of the execution is outside the premise of the
	// liveness property (the liveness oracle then only counts the execution)
	Outside string
	TxSeq   map[int]int
	// all transactions ever submitted (by content) → count
	Submitted map[string]int
	Errors    []string // step errors (informational)
	PeerIdx   map[string]int
}

func addr(i int) string { return fmt.Sprintf("addr%d", i) }

func mkPeer(i int) *peers.Peer {
	return peers.NewPeer(PubHex(i), addr(i), fmt.Sprintf("n%d", i))
}

func clonePeers(ps []*peers.Peer) []*peers.Peer {
	res := make([]*peers.Peer, len(ps))
	for i, p := range ps {
		res[i] = peers.NewPeer(p.PubKeyHex, p.NetAddr, p.Moniker)
	}
	return res
}

// NewCluster builds N genesis validators, all Babbling.
func NewCluster(cfg Config) *Cluster {
	cfg = cfg.withDefaults()
	c := &Cluster{
		Cfg:       cfg,
		ByAddr:    map[string]*SimNode{},
		Events:    map[string]*EvRec{},
		TxSeq:     map[int]int{},
		Submitted: map[string]int{},
		PeerIdx:   map[string]int{},
		active:    -1,
	}
	SetNow(c.now)
	for i := 0; i < cfg.N; i++ {
		c.Genesis = append(c.Genesis, mkPeer(i))
	}
	for i := 0; i < 16; i++ {
		c.PeerIdx[PubHex(i)] = i
	}
	for i := 0; i < cfg.N; i++ {
		if cfg.Solo && i > 0 {
			break
		}
		if i == 0 && cfg.BootstrapDir != "" {
			c.Nodes = append(c.Nodes, &SimNode{Idx: 0, Dir: cfg.BootstrapDir, Down: true})
			c.Cfg.Badger = map[int]bool{0: true}
			c.startNode(0, c.Genesis, true, false)
			c.Nodes[0].KeepDir = true
			continue
		}
		c.startNode(i, c.Genesis, false, cfg.FastSyncOf[i])
	}
	return c
}

func (c *Cluster) now() int64 {
	if c.active < 0 || c.active >= len(c.Nodes) || c.Nodes[c.active] == nil {
		return BaseTime
	}
	n := c.Nodes[c.active]
	n.Ticks++
	if f, ok := c.Cfg.Liars[n.Idx]; ok {
		return f(n.Ticks)
	}
	return BaseTime + int64(n.Ticks)*10 + int64(n.Idx) + c.Cfg.Skew[n.Idx]
}

// startNode creates (or re-creates with bootstrap) node i.
func (c *Cluster) startNode(i int, currentPeers []*peers.Peer, bootstrap bool, fastSync bool) *SimNode {
	for len(c.Nodes) <= i {
		c.Nodes = append(c.Nodes, nil)
	}
	conf := config.NewDefaultConfig()
	conf.LogLevel = "panic"
	conf.CacheSize = c.Cfg.CacheSize
	if v, ok := c.Cfg.CacheOf[i]; ok {
		conf.CacheSize = v
	}
	conf.SyncLimit = c.Cfg.SyncLimit
	conf.SuspendLimit = c.Cfg.SuspendLimit
	conf.EnableFastSync = fastSync
	conf.Bootstrap = bootstrap
	conf.JoinTimeout = 1
	conf.MaintenanceMode = c.Cfg.Maintenance[i]

	sn := &SimNode{Idx: i, Key: Key(i), Pub: PubHex(i), Peer: mkPeer(i), Conf: conf,
		App: NewApp(), FFStep: -1, Has: map[string]bool{}, known: map[uint32]int{}}
	if old := c.Nodes[i]; old != nil {
		sn.Dir = old.Dir
		sn.Submits = old.Submits
	}
	if old := c.Nodes[i]; old != nil && len(old.Configured) > 0 {
		// a restarted process: what it was configured with originally (the list it is handed now is whatever its
		// previous life held at the end, which is part of what C14 checks)
		sn.Configured = old.Configured
	} else {
		for _, p := range currentPeers {
			sn.Configured = append(sn.Configured, p.PubKeyString())
		}
	}
	sn.App.StepFn = func() int { return c.Step }
	sn.App.FailAfterApply = c.Cfg.CommitFault[i]
	if len(c.Cfg.RefuseJoin) > 0 {
		sn.App.Refuse = func(itx hg.InternalTransaction) bool {
			if itx.Body.Type != hg.PEER_ADD {
				return false
			}
			idx, ok := c.PeerIdx[itx.Body.Peer.PubKeyString()]
			return ok && c.Cfg.RefuseJoin[idx]
		}
	}
	var store hg.Store
	if c.Cfg.Badger[i] {
		if sn.Dir == "" {
			sn.Dir = filepath.Join(c.Cfg.Dir, fmt.Sprintf("badger-%d", i))
			os.RemoveAll(sn.Dir)
			os.MkdirAll(c.Cfg.Dir, 0o755)
		}
		if old := c.Nodes[i]; old != nil {
			sn.KeepDir = old.KeepDir
		}
		bs, err := hg.NewBadgerStore(conf.CacheSize, sn.Dir, false, conf.Logger())
		if err != nil {
			panic(fmt.Sprintf("harness: cannot open badger store: %v", err))
		}
		store = bs
	} else {
		store = hg.NewInmemStore(conf.CacheSize)
	}
	if c.Cfg.WrapStore != nil && !bootstrap {
		// (Hashgraph.Bootstrap type-asserts *BadgerStore: a restarted node gets the bare store)
		store = c.Cfg.WrapStore(i, store)
	}
	sn.Store = store
	sn.Trans = &Transport{c: c, owner: i}
	prox := inmem.NewInmemProxy(sn.App, conf.Logger())
	sn.Prox = prox
	c.active = i
	c.Nodes[i] = sn
	c.ByAddr[addr(i)] = sn
	func() {
		defer func() {
			if r := recover(); r != nil {
				if cs, ok := r.(CrashSentinel); ok && cs.Node == i {
					// the node "died" while it was starting (e.g. before writing the genesis peer-set)
					c.crashNode(i)
					return
				}
				panic(r)
			}
		}()
		cur := clonePeers(currentPeers)
		if c.Cfg.SelfOnly[i] {
			cur = []*peers.Peer{mkPeer(i)}
		}
		var px proxy.AppProxy = prox
		if c.Cfg.WrapProxy != nil {
			px = c.Cfg.WrapProxy(i, sn.App, prox)
		}
		sn.Node = node.NewNode(conf, node.NewValidator(sn.Key, sn.Peer.Moniker),
			peers.NewPeerSet(cur), peers.NewPeerSet(clonePeers(c.Genesis)),
			store, sn.Trans, px)
		sn.Node.VStopSignals()
		if err := sn.Node.Init(); err != nil {
			c.Errors = append(c.Errors, fmt.Sprintf("init node %d: %v", i, err))
		}
	}()
	c.active = -1
	return sn
}

// Close releases stores and scratch directories.
func (c *Cluster) Close() {
	for _, n := range c.Nodes {
		if n == nil {
			continue
		}
		func() {
			defer func() { recover() }()
			if !n.Down {
				n.Store.Close()
			}
		}()
		if n.Dir != "" && !n.KeepDir {
			os.RemoveAll(n.Dir)
		}
	}
}

// Live lists nodes that exist, are up and not silent.
func (c *Cluster) Live() []*SimNode {
	res := []*SimNode{}
	for _, n := range c.Nodes {
		if n != nil && !n.Down && !n.Silent {
			res = append(res, n)
		}
	}
	return res
}

// ---------------------------------------------------------------------------
// transport

// Transport implements net.Transport synchronously: the target's real
// processRPC runs inline in the caller's goroutine.
type Transport struct {
	c     *Cluster
	owner int
}

func (t *Transport) Listen()                  {}
func (t *Transport) Consumer() <-chan net.RPC { return make(chan net.RPC) }
func (t *Transport) LocalAddr() string        { return addr(t.owner) }
func (t *Transport) AdvertiseAddr() string    { return addr(t.owner) }
func (t *Transport) Close() error             { return nil }

func (t *Transport) Sync(target string, args *net.SyncRequest, resp *net.SyncResponse) error {
	out, err := t.c.deliver(t.owner, target, "sync", args)
	if o, ok := out.(*net.SyncResponse); ok && o != nil {
		*resp = *o
	}
	return err
}

func (t *Transport) EagerSync(target string, args *net.EagerSyncRequest, resp *net.EagerSyncResponse) error {
	out, err := t.c.deliver(t.owner, target, "eager", args)
	if o, ok := out.(*net.EagerSyncResponse); ok && o != nil {
		*resp = *o
	}
	return err
}

func (t *Transport) FastForward(target string, args *net.FastForwardRequest, resp *net.FastForwardResponse) error {
	out, err := t.c.deliver(t.owner, target, "ff", args)
	if o, ok := out.(*net.FastForwardResponse); ok && o != nil {
		*resp = *o
	}
	return err
}

func (t *Transport) Join(target string, args *net.JoinRequest, resp *net.JoinResponse) error {
	out, err := t.c.deliver(t.owner, target, "join", args)
	if o, ok := out.(*net.JoinResponse); ok && o != nil {
		*resp = *o
	}
	return err
}

func jsonCopy(in interface{}, out interface{}) {
	raw, err := json.Marshal(in)
	if err != nil {
		panic(fmt.Sprintf("harness: json marshal: %v", err))
	}
	if err := json.Unmarshal(raw, out); err != nil {
		panic(fmt.Sprintf("harness: json unmarshal: %v", err))
	}
}

func (c *Cluster) deliver(from int, target string, kind string, args interface{}) (interface{}, error) {
	plan := c.plan
	to := c.ByAddr[target]
	toIdx := -1
	if to != nil {
		toIdx = to.Idx
	}
	if plan != nil && plan.Hook != nil {
		saved := c.plan
		c.plan = nil
		plan.Hook(from, toIdx, kind, "pre")
		c.plan = saved
	}
	if to == nil || to.Down || to.Silent {
		return nil, fmt.Errorf("harness transport: %s unreachable", target)
	}
	if plan != nil && kind == "ff" && plan.FFFrom > 0 && toIdx != plan.FFFrom-1 {
		return nil, fmt.Errorf("harness transport: ff request to %s dropped (serving peer fixed)", target)
	}
	if plan != nil && plan.Answer != nil && (!plan.AnswerAsSet || plan.AnswerAs == toIdx) {
		if r, ok := plan.Answer(kind, args); ok {
			return r, nil
		}
	}
	if plan != nil && plan.DropReq[kind] {
		return nil, fmt.Errorf("harness transport: %s request lost", kind)
	}
	if plan != nil && plan.SyncLimit > 0 {
		if a, ok := args.(*net.SyncRequest); ok {
			cp := *a
			if cp.SyncLimit > plan.SyncLimit {
				cp.SyncLimit = plan.SyncLimit
			}
			args = &cp
		}
	}
	if plan != nil && plan.MutateReq != nil {
		args = plan.MutateReq(kind, args)
	}
	if c.Cfg.JSONWire {
		switch a := args.(type) {
		case *net.SyncRequest:
			var cp net.SyncRequest
			jsonCopy(a, &cp)
			args = &cp
		case *net.EagerSyncRequest:
			var cp net.EagerSyncRequest
			jsonCopy(a, &cp)
			args = &cp
		case *net.FastForwardRequest:
			var cp net.FastForwardRequest
			jsonCopy(a, &cp)
			args = &cp
		case *net.JoinRequest:
			var cp net.JoinRequest
			jsonCopy(a, &cp)
			args = &cp
		}
	}
	ch := make(chan net.RPCResponse, 1)
	saved := c.active
	c.active = to.Idx
	crashed := false
	func() {
		defer func() {
			if r := recover(); r != nil {
				if cs, ok := r.(CrashSentinel); ok && cs.Node == to.Idx {
					crashed = true
					return
				}
				panic(r)
			}
		}()
		to.Node.VProcessRPC(net.RPC{Command: args, RespChan: ch})
	}()
	c.active = saved
	if crashed {
		c.crashNode(to.Idx)
		return nil, fmt.Errorf("harness transport: %s crashed while serving the request", target)
	}
	var r net.RPCResponse
	select {
	case r = <-ch:
	default:
		return nil, fmt.Errorf("harness transport: no response")
	}
	if plan != nil && plan.Hook != nil {
		savedPlan := c.plan
		c.plan = nil
		plan.Hook(from, toIdx, kind, "post")
		c.plan = savedPlan
	}
	if kind == "eager" && r.Error != nil && to.FFStep >= 0 {
		to.Stalled++
	}
	if plan != nil && plan.DropResp[kind] {
		return nil, fmt.Errorf("harness transport: %s response lost", kind)
	}
	out := r.Response
	if o, ok := out.(*net.FastForwardResponse); ok && o != nil && !c.Cfg.JSONWire {
		// A fast-forward response is always passed through the wire encoding: delivered by
		// reference, the reset node would share the serving node's peer-set slices (frame.Peers and
		// frame.PeerSets alias each other inside the server), which no real transport does.
		var cp net.FastForwardResponse
		jsonCopy(o, &cp)
		out = &cp
	}
	if c.Cfg.JSONWire && out != nil {
		switch o := out.(type) {
		case *net.SyncResponse:
			var cp net.SyncResponse
			jsonCopy(o, &cp)
			out = &cp
		case *net.EagerSyncResponse:
			var cp net.EagerSyncResponse
			jsonCopy(o, &cp)
			out = &cp
		case *net.FastForwardResponse:
			var cp net.FastForwardResponse
			jsonCopy(o, &cp)
			out = &cp
		case *net.JoinResponse:
			var cp net.JoinResponse
			jsonCopy(o, &cp)
			out = &cp
		}
	}
	if plan != nil && plan.MutateResp != nil && out != nil {
		out = plan.MutateResp(kind, out)
	}
	if plan != nil && plan.ForceOK {
		return out, nil
	}
	return out, r.Error
}

// ---------------------------------------------------------------------------
// steps

func (c *Cluster) guard(name string, f func() error) (err error) {
	if c.depth > 0 {
		// nested action, run at a lock-release point of an outer step
		c.Trace = append(c.Trace, "  nested:"+name)
		sa, sp := c.active, c.plan
		c.plan = nil
		c.depth++
		err = f()
		c.depth--
		c.active, c.plan = sa, sp
		return err
	}
	c.depth = 1
	SetNow(c.now) // several clusters may be alive in one process (twins): the clock seam follows the stepping one
	c.Step++
	c.Trace = append(c.Trace, name)
	defer func() {
		c.depth = 0
		if r := recover(); r != nil {
			if cs, ok := r.(CrashSentinel); ok {
				c.crashNode(cs.Node)
				err = fmt.Errorf("node %d crashed before store write %d", cs.Node, cs.Write)
			} else {
				c.Panic = fmt.Sprintf("step %d %s: panic: %v\n%s", c.Step, name, r, debug.Stack())
				err = fmt.Errorf("panic: %v", r)
			}
		}
		c.active = -1
		c.plan = nil
		c.scan()
	}()
	err = f()
	if err != nil {
		c.Errors = append(c.Errors, fmt.Sprintf("step %d %s: %v", c.Step, name, err))
	}
	return err
}

func (c *Cluster) usable(i int) bool {
	return i >= 0 && i < len(c.Nodes) && c.Nodes[i] != nil && !c.Nodes[i].Down && !c.Nodes[i].Silent
}

// Gossip: node i runs the real pull-push gossip with j.
func (c *Cluster) Gossip(i, j int, plan *Plan) error {
	return c.guard(fmt.Sprintf("G(%d,%d%s)", i, j, planStr(plan)), func() error {
		if !c.usable(i) || j < 0 || j >= len(c.Nodes) || c.Nodes[j] == nil {
			return fmt.Errorf("not usable")
		}
		if c.Nodes[i].Node.GetState() != state.Babbling {
			return fmt.Errorf("initiator not babbling")
		}
		c.active = i
		c.plan = plan
		err := c.Nodes[i].Node.VGossip(c.Nodes[j].Peer)
		c.noteStall(i, err)
		return err
	})
}

// Pull: node i pulls from j only.
func (c *Cluster) Pull(i, j int, plan *Plan) error {
	return c.guard(fmt.Sprintf("P(%d,%d%s)", i, j, planStr(plan)), func() error {
		if !c.usable(i) || j < 0 || j >= len(c.Nodes) || c.Nodes[j] == nil {
			return fmt.Errorf("not usable")
		}
		if c.Nodes[i].Node.GetState() != state.Babbling {
			return fmt.Errorf("initiator not babbling")
		}
		c.active = i
		c.plan = plan
		_, err := c.Nodes[i].Node.VPull(c.Nodes[j].Peer)
		c.noteStall(i, err)
		return err
	})
}

// Monologue: node i records a self-event if busy.
func (c *Cluster) Monologue(i int) error {
	return c.guard(fmt.Sprintf("M(%d)", i), func() error {
		if !c.usable(i) {
			return fmt.Errorf("not usable")
		}
		c.active = i
		return c.Nodes[i].Node.VMonologue()
	})
}

// NextTx builds the next unique transaction of node i.
func (c *Cluster) NextTx(i int) []byte {
	c.TxSeq[i]++
	return []byte(fmt.Sprintf("tx-%d-%d", i, c.TxSeq[i]))
}

// SubmitRaw hands tx to node i (as doBackgroundWork does for submitCh).
func (c *Cluster) SubmitRaw(i int, tx []byte) error {
	return c.guard(fmt.Sprintf("T(%d,%q)", i, string(tx)), func() error {
		return c.submitInner(i, tx)
	})
}

func (c *Cluster) submitInner(i int, tx []byte) error {
	if i < 0 || i >= len(c.Nodes) || c.Nodes[i] == nil || c.Nodes[i].Down {
		return fmt.Errorf("not usable")
	}
	n := c.Nodes[i]
	cp := append([]byte{}, tx...)
	saved := c.active
	c.active = i
	// the application's side of the in-process proxy: SubmitTx(buf) hands the
	// transaction to the node's submit channel (what the node's background
	// routine reads and passes to addTransaction); afterwards the application
	// reuses its buffer
	buf := append([]byte{}, tx...)
	done := make(chan struct{})
	go func() { n.Prox.SubmitTx(buf); close(done) }()
	got := <-n.Prox.SubmitCh()
	<-done
	n.Node.VAddTransaction(got)
	for k := range buf {
		buf[k] ^= 0xa5
	}
	c.active = saved
	n.Submits = append(n.Submits, cp)
	c.Submitted[string(cp)]++
	return nil
}

// Submit submits the next unique transaction at node i.
func (c *Cluster) Submit(i int) error { return c.SubmitRaw(i, c.NextTx(i)) }

// JoinTx builds the signed PEER_ADD transaction of key k.
func JoinTx(k int) hg.InternalTransaction {
	itx := hg.NewInternalTransactionJoin(*mkPeer(k))
	itx.Sign(Key(k))
	return itx
}

// RequestJoin hands the join request of key k to validator i (what
// processJoinRequest does before blocking on the promise).
func (c *Cluster) RequestJoin(k, i int) error {
	return c.guard(fmt.Sprintf("J(%d,%d)", k, i), func() error {
		if !c.usable(i) {
			return fmt.Errorf("not usable")
		}
		itx := JoinTx(k)
		c.Nodes[i].Node.VAddInternalTransaction(itx)
		c.Nodes[i].Itxs = append(c.Nodes[i].Itxs, itx)
		return nil
	})
}

// RequestUnknown hands validator i a correctly signed internal transaction of a
// type this version does not know (type 7, concerning key k): the application
// accepts it like any other, the validator set must not change.
func (c *Cluster) RequestUnknown(k, i int) error {
	return c.guard(fmt.Sprintf("IX(%d,%d)", k, i), func() error {
		if !c.usable(i) {
			return fmt.Errorf("not usable")
		}
		itx := hg.NewInternalTransaction(hg.TransactionType(7), *mkPeer(k))
		itx.Sign(Key(k))
		c.Nodes[i].Node.VAddInternalTransaction(itx)
		c.Nodes[i].Itxs = append(c.Nodes[i].Itxs, itx)
		return nil
	})
}

// RequestLeave makes node i submit its own PEER_REMOVE (core.leave without the wait).
func (c *Cluster) RequestLeave(i int) error {
	return c.guard(fmt.Sprintf("L(%d)", i), func() error {
		if !c.usable(i) {
			return fmt.Errorf("not usable")
		}
		itx, ok := c.Nodes[i].Node.VLeaveTx()
		if !ok {
			return fmt.Errorf("leave: nothing to do")
		}
		c.Nodes[i].Node.VAddInternalTransaction(itx)
		c.Nodes[i].Itxs = append(c.Nodes[i].Itxs, itx)
		return nil
	})
}

// StartJoiner creates node k (not a member) with the peer list known to node
// via; it is in the Joining state until JoinAccepted.
func (c *Cluster) StartJoiner(k, via int, fastSync bool) error {
	return c.guard(fmt.Sprintf("Start(%d via %d)", k, via), func() error {
		cur := c.Nodes[via].Node.GetPeers()
		var old *SimNode
		if k < len(c.Nodes) {
			old = c.Nodes[k]
		}
		if old != nil && !old.Down {
			// a former validator comes back under the same key (re-join): a new process with an empty store
			func() {
				defer func() { recover() }()
				old.Store.Close()
			}()
			old.Dir = ""
		}
		sn := c.startNode(k, cur, false, fastSync)
		if old != nil {
			sn.Restarted = true
			sn.Submits = nil
		}
		return nil
	})
}

// AcceptedRound looks for an accepted PEER_ADD receipt of key k in the blocks
// delivered by node i; returns round-received+6.
func (c *Cluster) AcceptedRound(k, i int) (int, bool) {
	pub := PubHex(k)
	res, ok := 0, false
	for _, cr := range c.Nodes[i].App.Commits {
		for _, r := range cr.Receipts {
			if r.Accepted && r.InternalTransaction.Body.Type == hg.PEER_ADD &&
				r.InternalTransaction.Body.Peer.PubKeyString() == pub {
				res, ok = cr.Body.RoundReceived+6, true
			}
		}
	}
	return res, ok
}

// JoinAccepted performs the joiner-side tail of Node.join.
func (c *Cluster) JoinAccepted(k, acceptedRound int) error {
	return c.guard(fmt.Sprintf("JoinAccepted(%d,%d)", k, acceptedRound), func() error {
		c.active = k
		c.Nodes[k].Node.VJoinAccepted(acceptedRound)
		return nil
	})
}

func (c *Cluster) noteStall(i int, err error) {
	if err == nil || c.Nodes[i].FFStep < 0 {
		return
	}
	if strings.Contains(err.Error(), "harness transport") || strings.Contains(err.Error(), "Not in Babbling state") {
		return
	}
	c.Nodes[i].Stalled++
}

// Restart replaces node i by a fresh instance. bootstrap=true reopens its
// (Badger) store; otherwise the node starts from an empty store (fastSync
// decides whether it will catch up by fast-forward).
func (c *Cluster) Restart(i int, bootstrap, fastSync bool) error {
	return c.guard(fmt.Sprintf("Restart(%d,bootstrap=%v,fastsync=%v)", i, bootstrap, fastSync), func() error {
		old := c.Nodes[i]
		if old == nil {
			return fmt.Errorf("no such node")
		}
		cur := c.Genesis
		if old.Node != nil {
			cur = old.Node.GetPeers()
		}
		if !old.Down {
			func() {
				defer func() { recover() }()
				old.Store.Close()
			}()
		}
		if !bootstrap {
			old.Dir = ""
		}
		sn := c.startNode(i, cur, bootstrap, fastSync)
		sn.Restarted = true
		sn.Submits = nil
		if !bootstrap {
			sn.FFStep = c.Step // no longer a full-history node
		}
		return nil
	})
}

// Crash marks node i as down (its objects are abandoned).
func (c *Cluster) Crash(i int) error {
	return c.guard(fmt.Sprintf("Crash(%d)", i), func() error {
		if c.Nodes[i] == nil {
			return fmt.Errorf("no such node")
		}
		if !c.Nodes[i].Down {
			c.crashNode(i) // the dead process releases its database
		}
		return nil
	})
}

// FastForward: node i (in CatchingUp state) runs the real Node.fastForward.
func (c *Cluster) FastForward(i int, plan *Plan) error {
	return c.guard(fmt.Sprintf("FF(%d%s)", i, planStr(plan)), func() error {
		if !c.usable(i) {
			return fmt.Errorf("not usable")
		}
		if c.Nodes[i].Node.GetState() != state.CatchingUp {
			return fmt.Errorf("not catching up")
		}
		c.active = i
		c.plan = plan
		before := c.Nodes[i].Node.GetLastBlockIndex()
		nrest := len(c.Nodes[i].App.Restores)
		err := c.Nodes[i].Node.VFastForward()
		if len(c.Nodes[i].App.Restores) > nrest && err == nil {
			c.Nodes[i].FFStep = c.Step
			c.Nodes[i].known = map[uint32]int{}
			_ = before
		}
		return err
	})
}

// SetSilent marks node i silent (neither initiates nor answers) or heals it.
func (c *Cluster) SetSilent(i int, v bool) error {
	return c.guard(fmt.Sprintf("Silent(%d,%v)", i, v), func() error {
		if i < 0 || i >= len(c.Nodes) || c.Nodes[i] == nil {
			return fmt.Errorf("no such node")
		}
		c.Nodes[i].Silent = v
		return nil
	})
}

// CheckSuspend runs Node.checkSuspend on i.
func (c *Cluster) CheckSuspend(i int) error {
	return c.guard(fmt.Sprintf("CheckSuspend(%d)", i), func() error {
		c.Nodes[i].Node.VCheckSuspend()
		return nil
	})
}

func planStr(p *Plan) string {
	if p == nil {
		return ""
	}
	s := ""
	ks := []string{}
	for k, v := range p.DropReq {
		if v {
			ks = append(ks, "-req:"+k)
		}
	}
	for k, v := range p.DropResp {
		if v {
			ks = append(ks, "-resp:"+k)
		}
	}
	sort.Strings(ks)
	for _, k := range ks {
		s += "," + k
	}
	if p.SyncLimit > 0 {
		s += fmt.Sprintf(",lim=%d", p.SyncLimit)
	}
	if p.Hook != nil {
		s += ",nested"
	}
	if p.FFFrom > 0 {
		s += fmt.Sprintf(",from=%d", p.FFFrom-1)
	}
	return s
}

// ---------------------------------------------------------------------------
// event log

// scan records events that appeared in any node's store since the last step.
func (c *Cluster) scan() {
	if c.Panic != "" {
		return
	}
	defer func() {
		if r := recover(); r != nil {
			c.Errors = append(c.Errors, fmt.Sprintf("scan panic: %v", r))
		}
	}()
	for _, n := range c.Nodes {
		if n == nil || n.Down {
			continue
		}
		known := n.Store.KnownEvents()
		rep := n.Store.RepertoireByID()
		for id, last := range known {
			prev, ok := n.known[id]
			if !ok {
				prev = -1
			}
			if last <= prev {
				continue
			}
			p, ok := rep[id]
			if !ok {
				continue
			}
			for idx := prev + 1; idx <= last; idx++ {
				hex, err := n.Store.ParticipantEvent(p.PubKeyString(), idx)
				if err != nil {
					continue
				}
				if !n.Has[hex] {
					n.pending = append(n.pending, hex)
				}
				n.Has[hex] = true
				if _, seen := c.Events[hex]; seen {
					continue
				}
				ev, err := n.Store.GetEvent(hex)
				if err != nil {
					continue
				}
				ci, okc := c.PeerIdx[ev.Creator()]
				if !okc {
					ci = -1
				}
				c.Events[hex] = &EvRec{Hex: hex, Creator: ev.Creator(), CreatorIdx: ci, Index: ev.Index(),
					SelfParent: ev.SelfParent(), OtherParent: ev.OtherParent(), Txs: ev.Transactions(),
					Itxs: ev.InternalTransactions(), Sigs: ev.BlockSignatures(), Timestamp: ev.Timestamp(),
					Signature: ev.Signature, FirstStep: c.Step}
				c.EvOrder = append(c.EvOrder, hex)
			}
			n.known[id] = last
		}
	}
}

// PubOf returns the public key bytes of key i.
func PubOf(i int) []byte { return keys.FromPublicKey(&Key(i).PublicKey) }

// Custom runs f as one (guarded, traced) step.
func (c *Cluster) Custom(name string, f func() error) error { return c.guard(name, f) }

// crashNode abandons node i's in-memory objects; its Badger handle is closed so
// that the directory can be reopened (a crash = the prefix of committed Badger
// transactions; validated against real SIGKILLs by the crash check).
func (c *Cluster) crashNode(i int) {
	n := c.Nodes[i]
	if n == nil || n.Down {
		return
	}
	n.Down = true
	c.Trace = append(c.Trace, fmt.Sprintf("  crash(%d)", i))
	var st hg.Store = n.Store
	if cs, ok := st.(*CrashStore); ok {
		st = cs.Store
	}
	func() {
		defer func() { recover() }()
		st.Close()
	}()
}

// ProcessRPC delivers a harness-built request to node i's real processRPC and
// returns the response (a step with a recover boundary where the real code has none).
func (c *Cluster) ProcessRPC(i int, name string, cmd interface{}) (resp interface{}, rerr error) {
	c.guard(name, func() error {
		ch := make(chan net.RPCResponse, 1)
		c.active = i
		c.Nodes[i].Node.VProcessRPC(net.RPC{Command: cmd, RespChan: ch})
		select {
		case r := <-ch:
			resp, rerr = r.Response, r.Error
		default:
			rerr = fmt.Errorf("no response")
		}
		return nil
	})
	return
}

// Join runs the real Node.join of node i (state Joining) against the transport.
func (c *Cluster) Join(i int, plan *Plan) error {
	return c.guard(fmt.Sprintf("Join(%d)", i), func() error {
		c.active = i
		c.plan = plan
		return c.Nodes[i].Node.VJoin()
	})
}
