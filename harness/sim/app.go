package sim

import (
	"crypto/sha256"
	"encoding/json"
	"fmt"

	hg "github.com/mosaicnetworks/babble/src/hashgraph"
	"github.com/mosaicnetworks/babble/src/node/state"
	"github.com/mosaicnetworks/babble/src/proxy"
)

// CommitRec is what the application saw for one CommitBlock call.
type CommitRec struct {
	Body      hg.BlockBody // deep copy of the body as delivered (before the response)
	StateHash []byte       // returned
	Receipts  []hg.InternalTransactionReceipt
	Step      int // cluster step at which the call happened
}

// App is a deterministic application: state hash = chained SHA-256 over the
// delivered transactions; internal transactions are accepted unless Refuse
// says otherwise; a snapshot is kept for every block.
type App struct {
	State     []byte
	Commits   []CommitRec
	Snapshots map[int][]byte
	Refuse    func(itx hg.InternalTransaction) bool
	Restores  [][]byte
	RestoreAt []RestoreRec // one per entry of Restores
	States    []state.State
	FailNext  int // >0: the next commit returns an error (C02/C05 fault injection)
	// FailAfterApply: commit number k (1-based) is applied and recorded as usual, but the call returns an error
	// (what a proxy time-out looks like to babble: the application may well have applied the block)
	FailAfterApply map[int]bool
	// FailStateChange: OnStateChanged(s) returns an error the next FailStateChange[s] times (an application that
	// cannot be notified)
	FailStateChange map[state.State]int
	StepFn          func() int
}

// RestoreRec: the application was restored to the state after block Index when it had seen Commits commit calls.
type RestoreRec struct{ Commits, Index int }

type snapshot struct {
	State []byte
	Index int
}

func NewApp() *App {
	return &App{State: []byte{}, Snapshots: map[int][]byte{}}
}

func copyBody(b hg.BlockBody) hg.BlockBody {
	raw, err := json.Marshal(b)
	if err != nil {
		panic(err)
	}
	var c hg.BlockBody
	if err := json.Unmarshal(raw, &c); err != nil {
		panic(err)
	}
	return c
}

// CommitHandler implements proxy.ProxyHandler.
func (a *App) CommitHandler(block hg.Block) (proxy.CommitResponse, error) {
	if a.FailNext > 0 {
		a.FailNext--
		return proxy.CommitResponse{}, fmt.Errorf("app: injected commit failure")
	}
	h := sha256.New()
	h.Write(a.State)
	for _, tx := range block.Transactions() {
		h.Write([]byte{byte(len(tx)), byte(len(tx) >> 8)})
		h.Write(tx)
	}
	receipts := []hg.InternalTransactionReceipt{}
	for _, itx := range block.InternalTransactions() {
		it := itx
		if a.Refuse != nil && a.Refuse(it) {
			receipts = append(receipts, it.AsRefused())
			h.Write([]byte("R"))
		} else {
			receipts = append(receipts, it.AsAccepted())
			h.Write([]byte("A"))
		}
		h.Write([]byte(it.Body.Peer.PubKeyHex))
	}
	a.State = h.Sum(nil)
	step := 0
	if a.StepFn != nil {
		step = a.StepFn()
	}
	// the record keeps its own copy: the slice handed back to babble is babble's to use
	rec := CommitRec{Body: copyBody(block.Body), StateHash: append([]byte{}, a.State...), Receipts: append([]hg.InternalTransactionReceipt{}, receipts...), Step: step}
	a.Commits = append(a.Commits, rec)
	snap, _ := json.Marshal(snapshot{State: a.State, Index: block.Index()})
	a.Snapshots[block.Index()] = snap
	if a.FailAfterApply[len(a.Commits)] {
		return proxy.CommitResponse{}, fmt.Errorf("app: commit applied, reply lost")
	}
	return proxy.CommitResponse{StateHash: append([]byte{}, a.State...), InternalTransactionReceipts: receipts}, nil
}

// SnapshotHandler implements proxy.ProxyHandler.
func (a *App) SnapshotHandler(blockIndex int) ([]byte, error) {
	s, ok := a.Snapshots[blockIndex]
	if !ok {
		return nil, fmt.Errorf("app: no snapshot for block %d", blockIndex)
	}
	return s, nil
}

// RestoreHandler implements proxy.ProxyHandler.
func (a *App) RestoreHandler(snap []byte) ([]byte, error) {
	var s snapshot
	if err := json.Unmarshal(snap, &s); err != nil {
		return nil, err
	}
	a.State = s.State
	a.Restores = append(a.Restores, append([]byte{}, snap...))
	a.RestoreAt = append(a.RestoreAt, RestoreRec{Commits: len(a.Commits), Index: s.Index})
	a.Snapshots[s.Index] = append([]byte{}, snap...)
	return a.State, nil
}

// StateChangeHandler implements proxy.ProxyHandler.
func (a *App) StateChangeHandler(s state.State) error {
	a.States = append(a.States, s)
	if a.FailStateChange[s] > 0 {
		a.FailStateChange[s]--
		return fmt.Errorf("app: cannot take the state change to %s", s)
	}
	return nil
}
