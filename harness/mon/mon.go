// Package mon holds the per-step monitors (oracles) evaluated on a sim.Cluster.
package mon

import (
	"bytes"
	"crypto/sha256"
	"encoding/hex"
	"encoding/json"
	"fmt"
	"sort"

	hg "github.com/mosaicnetworks/babble/src/hashgraph"
	"verif/harness/ev"
	"verif/harness/sim"
)

// Monitor is evaluated after every step of every execution.
type Monitor interface {
	ID() string
	AfterStep(c *sim.Cluster) []ev.Violation
}

// Counted is implemented by monitors that report vacuity counters.
type Counted interface {
	Counters() map[string]int
}

// Stats are per-execution counters the monitors fill for the evidence.
type Stats struct {
	CommonBlocksUnequalViews int // C01 non-triviality: a block index delivered by ≥2 nodes whose event sets differed at that time
	BlocksChecked            int
	ReadsChecked             int
}

func digest(v interface{}) string {
	raw, err := json.Marshal(v)
	if err != nil {
		panic(err)
	}
	h := sha256.Sum256(raw)
	return hex.EncodeToString(h[:8])
}

// DeliveredDigest is the C01 comparison key of a delivered block.
type delivered struct {
	Index         int
	RoundReceived int
	Transactions  [][]byte
	Itxs          []hg.InternalTransaction
	Receipts      []hg.InternalTransactionReceipt
	FrameHash     []byte
	PeersHash     []byte
	Timestamp     int64
	StateHash     []byte
}

func deliveredOf(cr sim.CommitRec) delivered {
	return delivered{cr.Body.Index, cr.Body.RoundReceived, norm(cr.Body.Transactions), cr.Body.InternalTransactions,
		cr.Receipts, cr.Body.FrameHash, cr.Body.PeersHash, cr.Body.Timestamp, cr.StateHash}
}

func deliveredOfBody(b hg.BlockBody) delivered {
	return delivered{b.Index, b.RoundReceived, norm(b.Transactions), b.InternalTransactions,
		b.InternalTransactionReceipts, b.FrameHash, b.PeersHash, b.Timestamp, b.StateHash}
}

func norm(t [][]byte) [][]byte {
	if t == nil {
		return [][]byte{}
	}
	return t
}

func describe(d delivered) string {
	raw, _ := json.Marshal(d)
	if len(raw) > 600 {
		raw = append(raw[:600], "..."...)
	}
	return string(raw)
}

func traceOf(c *sim.Cluster) []string { return append([]string{}, c.Trace...) }

func replay(c *sim.Cluster, extra map[string]interface{}) map[string]interface{} {
	m := map[string]interface{}{"trace": traceOf(c), "step": c.Step}
	for k, v := range extra {
		m[k] = v
	}
	return m
}

// ---------------------------------------------------------------------------
// C01 agreement

type Agreement struct {
	canon     map[int]string // index → digest
	canonDesc map[int]string
	canonBy   map[int]int
	seen      map[int]int // node → commits consumed
	holders   map[int][]int
	Stats     *Stats
	// IncludeFF: also compare nodes that fast-forwarded (C13) from their anchor+1 on
	IncludeFF bool
	PropID    string
}

func NewAgreement(st *Stats) *Agreement {
	return &Agreement{canon: map[int]string{}, canonDesc: map[int]string{}, canonBy: map[int]int{}, seen: map[int]int{},
		holders: map[int][]int{}, Stats: st, PropID: "C01"}
}

func (m *Agreement) ID() string { return m.PropID }

func sameEventSets(a, b *sim.SimNode) bool {
	if len(a.Has) != len(b.Has) {
		return false
	}
	for k := range a.Has {
		if !b.Has[k] {
			return false
		}
	}
	return true
}

func (m *Agreement) AfterStep(c *sim.Cluster) []ev.Violation {
	var out []ev.Violation
	for _, n := range c.Nodes {
		if n == nil {
			continue
		}
		if !n.FullHistory() && (!m.IncludeFF || n.Stalled > 0) {
			continue
		}
		start := m.seen[n.Idx]
		if start > len(n.App.Commits) { // node restarted with a fresh app
			start = 0
		}
		for k := start; k < len(n.App.Commits); k++ {
			cr := n.App.Commits[k]
			d := deliveredOf(cr)
			dg := digest(d)
			idx := cr.Body.Index
			if m.Stats != nil {
				m.Stats.BlocksChecked++
			}
			if prev, ok := m.canon[idx]; !ok {
				m.canon[idx] = dg
				m.canonDesc[idx] = describe(d)
				m.canonBy[idx] = n.Idx
			} else if prev != dg {
				out = append(out, ev.Violation{Property: m.PropID, Key: fmt.Sprintf("block-mismatch"),
					What:   fmt.Sprintf("node %d delivered block %d = %s but node %d delivered %s", n.Idx, idx, describe(d), m.canonBy[idx], m.canonDesc[idx]),
					Replay: replay(c, map[string]interface{}{"node": n.Idx, "block": idx})})
			}
			// non-triviality: another node already delivered idx while holding a different event set
			for _, o := range m.holders[idx] {
				if o != n.Idx && c.Nodes[o] != nil && !sameEventSets(c.Nodes[o], n) && m.Stats != nil {
					m.Stats.CommonBlocksUnequalViews++
					break
				}
			}
			m.holders[idx] = append(m.holders[idx], n.Idx)
		}
		m.seen[n.Idx] = len(n.App.Commits)
		// what the store reports for delivered blocks
		if n.Down {
			continue
		}
		for _, cr := range n.App.Commits {
			idx := cr.Body.Index
			b, err := n.Store.GetBlock(idx)
			if err != nil {
				continue // evicted from an in-memory LRU: not reported, not different
			}
			if m.Stats != nil {
				m.Stats.ReadsChecked++
			}
			want, ok := m.canon[idx]
			if !ok {
				continue
			}
			if got := digest(deliveredOfBody(b.Body)); got != want {
				out = append(out, ev.Violation{Property: m.PropID, Key: "store-block-mismatch",
					What:   fmt.Sprintf("node %d Store.GetBlock(%d) = %s differs from the delivered block %s", n.Idx, idx, describe(deliveredOfBody(b.Body)), m.canonDesc[idx]),
					Replay: replay(c, map[string]interface{}{"node": n.Idx, "block": idx})})
			}
		}
	}
	return out
}

// Canon exposes the canonical chain (index → digest).
func (m *Agreement) Canon() map[int]string { return m.canon }

// ---------------------------------------------------------------------------
// C02 finality

type nodeFinal struct {
	consumed   int
	lastIdx    int
	lastRR     int
	started    bool
	restores   int                       // entries of App.RestoreAt consumed
	afterReset bool                      // the next block is the first after a reset (its round-received is compared with nothing)
	body       map[int]string            // index → digest of delivered body + state hash + receipts
	sigs       map[int]map[string]string // index → signer → signature as last seen
	appGen     *sim.App
}

type Finality struct {
	// SeqOnly: only the delivery sequence is judged (consecutive indexes, increasing round-received), not what the
	// node reports for old blocks (used under commit faults, where the stored block never gets its state hash)
	SeqOnly   bool
	nodes     map[int]*nodeFinal
	Evictions int
	Reads     int
}

func NewFinality() *Finality   { return &Finality{nodes: map[int]*nodeFinal{}} }
func (m *Finality) ID() string { return "C02" }

func (m *Finality) AfterStep(c *sim.Cluster) []ev.Violation {
	var out []ev.Violation
	for _, n := range c.Nodes {
		if n == nil {
			continue
		}
		nf := m.nodes[n.Idx]
		if nf == nil || nf.appGen != n.App {
			nf = &nodeFinal{body: map[int]string{}, sigs: map[int]map[string]string{}, appGen: n.App}
			m.nodes[n.Idx] = nf
		}
		// a node that reset itself to an anchor (fast-sync) goes on with the block after the anchor,
		// whatever it had delivered before; what it reported for later indexes is void
		applyRestores := func(upTo int) {
			for _, r := range n.App.RestoreAt[nf.restores:] {
				if r.Commits > upTo {
					break
				}
				nf.restores++
				if nf.started {
					nf.lastIdx, nf.lastRR, nf.afterReset = r.Index, -1, true
					for i := range nf.body {
						if i > r.Index {
							delete(nf.body, i)
						}
					}
					// the store was replaced by the anchor block as the serving peer holds it: the
					// signatures collected before the reset went with the old store
					nf.sigs = map[int]map[string]string{}
				}
			}
		}
		for k := nf.consumed; k < len(n.App.Commits); k++ {
			cr := n.App.Commits[k]
			idx, rr := cr.Body.Index, cr.Body.RoundReceived
			applyRestores(k)
			if !nf.started {
				// a node starts at 0, or at anchor+1 after a fast-sync
				if n.FullHistory() && idx != 0 {
					out = append(out, ev.Violation{Property: "C02", Key: "first-index-not-zero",
						What:   fmt.Sprintf("node %d (full history) delivered first block with index %d", n.Idx, idx),
						Replay: replay(c, map[string]interface{}{"node": n.Idx})})
				}
				nf.started = true
			} else {
				if idx != nf.lastIdx+1 {
					key := "index-skip"
					if idx <= nf.lastIdx {
						key = "index-repeat"
					}
					out = append(out, ev.Violation{Property: "C02", Key: key,
						What:   fmt.Sprintf("node %d delivered block index %d after %d", n.Idx, idx, nf.lastIdx),
						Replay: replay(c, map[string]interface{}{"node": n.Idx})})
				}
				if rr <= nf.lastRR && !nf.afterReset {
					out = append(out, ev.Violation{Property: "C02", Key: "round-received-not-increasing",
						What:   fmt.Sprintf("node %d delivered block %d with round-received %d after round-received %d", n.Idx, idx, rr, nf.lastRR),
						Replay: replay(c, map[string]interface{}{"node": n.Idx})})
				}
			}
			nf.lastIdx, nf.lastRR, nf.afterReset = idx, rr, false
			nf.body[idx] = digest(deliveredOf(cr))
		}
		nf.consumed = len(n.App.Commits)
		applyRestores(nf.consumed)
		if n.Down || m.SeqOnly {
			continue
		}
		// what the node reports (Node.GetBlock is what the HTTP service serves)
		for idx, want := range nf.body {
			b, err := n.Node.GetBlock(idx)
			if err != nil {
				m.Evictions++
				continue
			}
			m.Reads++
			if got := digest(deliveredOfBody(b.Body)); got != want {
				out = append(out, ev.Violation{Property: "C02", Key: "reported-block-changed",
					What:   fmt.Sprintf("node %d reports block %d as %s, which is not what it delivered (+ state hash and receipts)", n.Idx, idx, describe(deliveredOfBody(b.Body))),
					Replay: replay(c, map[string]interface{}{"node": n.Idx, "block": idx})})
			}
			old := nf.sigs[idx]
			for s, v := range old {
				if nv, ok := b.Signatures[s]; !ok || nv != v {
					out = append(out, ev.Violation{Property: "C02", Key: "signature-removed-or-changed",
						What:   fmt.Sprintf("node %d block %d: signature of %s was %q and is now %q (present=%v)", n.Idx, idx, s, v, nv, ok),
						Replay: replay(c, map[string]interface{}{"node": n.Idx, "block": idx})})
				}
			}
			cp := map[string]string{}
			for s, v := range b.Signatures {
				cp[s] = v
			}
			nf.sigs[idx] = cp
		}
	}
	return out
}

// ---------------------------------------------------------------------------
// helpers shared by other monitors

func sortedKeys(m map[string]bool) []string {
	ks := make([]string, 0, len(m))
	for k := range m {
		ks = append(ks, k)
	}
	sort.Strings(ks)
	return ks
}

func bytesEq(a, b [][]byte) bool {
	if len(a) != len(b) {
		return false
	}
	for i := range a {
		if !bytes.Equal(a[i], b[i]) {
			return false
		}
	}
	return true
}

func (m *Finality) Counters() map[string]int {
	return map[string]int{"c02_block_reads": m.Reads, "c02_evicted_reads": m.Evictions}
}
