package mon

import (
	"bytes"
	"fmt"

	"verif/harness/ev"
	"verif/harness/sim"
)

// ---------------------------------------------------------------------------
// C04 committed order extends causality; whole and once

type nodeOrder struct {
	next      int            // next round to look at
	pos       map[string]int // committed event → position in the node's total order
	count     int
	waiting   map[string]string // uncommitted parent → committed child (FF nodes)
	blocksRR  map[int]int       // round received → index in App.Commits
	consumed  int
	app       *sim.App
	ffStep    int
	frameless int
}

type Order struct {
	nodes         map[int]*nodeOrder
	FramesChecked int
	PairsChecked  int
}

func NewOrder() *Order      { return &Order{nodes: map[int]*nodeOrder{}} }
func (m *Order) ID() string { return "C04" }
func (m *Order) reset(n *sim.SimNode) *nodeOrder {
	st := &nodeOrder{pos: map[string]int{}, waiting: map[string]string{}, blocksRR: map[int]int{}, app: n.App, ffStep: n.FFStep}
	m.nodes[n.Idx] = st
	return st
}

func (m *Order) AfterStep(c *sim.Cluster) []ev.Violation {
	var out []ev.Violation
	for _, n := range c.Nodes {
		if n == nil || n.Down {
			continue
		}
		st := m.nodes[n.Idx]
		if st == nil || st.app != n.App || st.ffStep != n.FFStep {
			st = m.reset(n)
			if n.FFStep >= 0 {
				// start after the anchor round
				if lb, ok := n.Node.VHashgraph().VRoundLowerBound(); ok {
					st.next = lb + 1
				}
			}
		}
		for k := st.consumed; k < len(n.App.Commits); k++ {
			rr := n.App.Commits[k].Body.RoundReceived
			if prev, dup := st.blocksRR[rr]; dup && n.FFStep < 0 {
				// a block is the payload of the events of one round-received: a second block for the same
				// round commits every one of them again
				out = append(out, ev.Violation{Property: "C04", Key: "event-committed-twice",
					What:   fmt.Sprintf("node %d delivered block %d for round-received %d, which it had already delivered as block %d: every event of that round is committed twice", n.Idx, n.App.Commits[k].Body.Index, rr, n.App.Commits[prev].Body.Index),
					Replay: replay(c, map[string]interface{}{"node": n.Idx, "round": rr})})
			}
			st.blocksRR[rr] = k
		}
		st.consumed = len(n.App.Commits)
		h := n.Node.VHashgraph()
		if h.LastConsensusRound == nil {
			continue
		}
		lcr := *h.LastConsensusRound
		for ; st.next <= lcr; st.next++ {
			r := st.next
			frame, err := n.Store.GetFrame(r)
			if err != nil {
				st.frameless++
				continue
			}
			m.FramesChecked++
			inFrame := map[string]bool{}
			var txs [][]byte
			nitx := 0
			for _, fe := range frame.Events {
				hex := fe.Core.Hex()
				inFrame[hex] = true
				if p, dup := st.pos[hex]; dup {
					out = append(out, ev.Violation{Property: "C04", Key: "event-committed-twice",
						What:   fmt.Sprintf("node %d: event %s committed at position %d and again in round-received %d", n.Idx, short(hex), p, r),
						Replay: replay(c, map[string]interface{}{"node": n.Idx, "round": r})})
				}
				rec := c.Events[hex]
				if rec == nil {
					// an event the harness never saw being created: cannot check ancestry
					st.pos[hex] = st.count
					st.count++
					continue
				}
				for _, p := range []string{rec.SelfParent, rec.OtherParent} {
					if p == "" {
						continue
					}
					m.PairsChecked++
					if _, ok := st.pos[p]; ok {
						continue
					}
					if n.FullHistory() {
						out = append(out, ev.Violation{Property: "C04", Key: "descendant-before-ancestor",
							What:   fmt.Sprintf("node %d: event %s (creator %d index %d) committed in round-received %d before its parent %s", n.Idx, short(hex), rec.CreatorIdx, rec.Index, r, short(p)),
							Replay: replay(c, map[string]interface{}{"node": n.Idx, "round": r})})
					} else {
						st.waiting[p] = hex
					}
				}
				if child, ok := st.waiting[hex]; ok {
					out = append(out, ev.Violation{Property: "C04", Key: "ancestor-after-descendant",
						What:   fmt.Sprintf("node %d: event %s committed after its descendant %s", n.Idx, short(hex), short(child)),
						Replay: replay(c, map[string]interface{}{"node": n.Idx, "round": r})})
				}
				st.pos[hex] = st.count
				st.count++
				// own record of the payload, not the frame's copy
				txs = append(txs, rec.Txs...)
				nitx += len(rec.Itxs)
			}
			// the block of this round-received carries exactly the payload of the frame's events, in order
			k, has := st.blocksRR[r]
			if (len(txs) > 0 || nitx > 0) != has {
				out = append(out, ev.Violation{Property: "C04", Key: "block-presence-mismatch",
					What:   fmt.Sprintf("node %d: round-received %d has %d transactions / %d internal transactions in its events but block delivered=%v", n.Idx, r, len(txs), nitx, has),
					Replay: replay(c, map[string]interface{}{"node": n.Idx, "round": r})})
			}
			if has {
				got := n.App.Commits[k].Body.Transactions
				if !bytesEq(norm(got), norm(txs)) {
					out = append(out, ev.Violation{Property: "C04", Key: "block-payload-not-concatenation",
						What:   fmt.Sprintf("node %d: block %d (round-received %d) transactions %q are not the concatenation %q of its events' payloads in frame order", n.Idx, n.App.Commits[k].Body.Index, r, got, txs),
						Replay: replay(c, map[string]interface{}{"node": n.Idx, "round": r})})
				}
				if len(n.App.Commits[k].Body.InternalTransactions) != nitx {
					out = append(out, ev.Violation{Property: "C04", Key: "block-itx-count",
						What:   fmt.Sprintf("node %d: block round-received %d has %d internal transactions, its events %d", n.Idx, r, len(n.App.Commits[k].Body.InternalTransactions), nitx),
						Replay: replay(c, map[string]interface{}{"node": n.Idx, "round": r})})
				}
			}
			// exactly the events whose private round-received is r
			for hex := range n.Has {
				e, err := n.Store.GetEvent(hex)
				if err != nil {
					continue
				}
				vi := e.VInfo()
				if vi.HasRoundReceived && vi.RoundReceived == r && !inFrame[hex] {
					if _, below := st.pos[hex]; below {
						continue
					}
					out = append(out, ev.Violation{Property: "C04", Key: "received-event-missing-from-frame",
						What:   fmt.Sprintf("node %d: event %s has round-received %d but is not in that round's frame", n.Idx, short(hex), r),
						Replay: replay(c, map[string]interface{}{"node": n.Idx, "round": r})})
				}
				if inFrame[hex] && !vi.HasRoundReceived {
					// an event re-read from a database carries no round-received of its own: the round's list decides
					if ri, err := n.Store.GetRound(r); err == nil {
						for _, x := range ri.ReceivedEvents {
							if x == hex {
								vi.HasRoundReceived, vi.RoundReceived = true, r
							}
						}
					}
				}
				if inFrame[hex] && (!vi.HasRoundReceived || vi.RoundReceived != r) {
					out = append(out, ev.Violation{Property: "C04", Key: "frame-event-wrong-round-received",
						What:   fmt.Sprintf("node %d: event %s is in frame %d but its round-received is %d (set=%v)", n.Idx, short(hex), r, vi.RoundReceived, vi.HasRoundReceived),
						Replay: replay(c, map[string]interface{}{"node": n.Idx, "round": r})})
				}
			}
		}
	}
	return out
}

func short(h string) string {
	if len(h) > 12 {
		return h[:12]
	}
	return h
}

// ---------------------------------------------------------------------------
// C05 transaction integrity

type Integrity struct {
	consumed    map[int]int
	delivered   map[int]map[string]int
	apps        map[int]*sim.App
	Checked     int
	SigsChecked int
}

func NewIntegrity() *Integrity {
	return &Integrity{consumed: map[int]int{}, delivered: map[int]map[string]int{}, apps: map[int]*sim.App{}}
}
func (m *Integrity) ID() string { return "C05" }

func (m *Integrity) AfterStep(c *sim.Cluster) []ev.Violation {
	var out []ev.Violation
	for _, n := range c.Nodes {
		if n == nil {
			continue
		}
		if m.apps[n.Idx] != n.App {
			m.apps[n.Idx] = n.App
			m.consumed[n.Idx] = 0
			m.delivered[n.Idx] = map[string]int{}
		}
		del := m.delivered[n.Idx]
		for k := m.consumed[n.Idx]; k < len(n.App.Commits); k++ {
			for _, tx := range n.App.Commits[k].Body.Transactions {
				m.Checked++
				del[string(tx)]++
				sub := c.Submitted[string(tx)]
				if sub == 0 {
					out = append(out, ev.Violation{Property: "C05", Key: "delivered-not-submitted",
						What:   fmt.Sprintf("node %d delivered transaction %q in block %d that no application submitted", n.Idx, tx, n.App.Commits[k].Body.Index),
						Replay: replay(c, map[string]interface{}{"node": n.Idx})})
				} else if del[string(tx)] > sub {
					out = append(out, ev.Violation{Property: "C05", Key: "delivered-more-than-submitted",
						What:   fmt.Sprintf("node %d delivered transaction %q %d times, submitted %d times", n.Idx, tx, del[string(tx)], sub),
						Replay: replay(c, map[string]interface{}{"node": n.Idx})})
				}
			}
		}
		m.consumed[n.Idx] = len(n.App.Commits)
		if n.Down || n.Restarted {
			continue
		}
		// pool ⊎ payloads of own events = accepted
		cs := n.Node.VCoreState()
		have := map[string]int{}
		for _, tx := range cs.TxPool {
			have[string(tx)]++
		}
		for _, hex := range c.EvOrder {
			rec := c.Events[hex]
			if rec.CreatorIdx != n.Idx {
				continue
			}
			for _, tx := range rec.Txs {
				have[string(tx)]++
			}
		}
		want := map[string]int{}
		for _, tx := range n.Submits {
			want[string(tx)]++
		}
		for tx, k := range want {
			if have[tx] < k {
				out = append(out, ev.Violation{Property: "C05", Key: "accepted-transaction-lost",
					What:   fmt.Sprintf("node %d accepted transaction %q %d time(s) but it is in its pool + own events %d time(s)", n.Idx, tx, k, have[tx]),
					Replay: replay(c, map[string]interface{}{"node": n.Idx})})
			}
		}
		for tx, k := range have {
			if want[tx] < k {
				out = append(out, ev.Violation{Property: "C05", Key: "transaction-duplicated-in-events",
					What:   fmt.Sprintf("node %d accepted transaction %q %d time(s) but it is in its pool + own events %d time(s)", n.Idx, tx, want[tx], k),
					Replay: replay(c, map[string]interface{}{"node": n.Idx})})
			}
		}
		// own block signatures: one per delivered block whose validator set contains the node, either still
		// waiting in the pool or carried by exactly the node's own events
		if n.FullHistory() {
			sigAt := map[int]int{}
			for _, sg := range cs.SelfSigs {
				sigAt[sg.Index]++
			}
			for _, hex := range c.EvOrder {
				rec := c.Events[hex]
				if rec.CreatorIdx != n.Idx {
					continue
				}
				for _, sg := range rec.Sigs {
					sigAt[sg.Index]++
				}
			}
			for _, cr := range n.App.Commits {
				ps, err := n.Store.GetPeerSet(cr.Body.RoundReceived)
				if err != nil {
					continue
				}
				if _, member := ps.ByPubKey[n.Pub]; !member {
					continue
				}
				m.SigsChecked++
				if sigAt[cr.Body.Index] == 0 {
					out = append(out, ev.Violation{Property: "C05", Key: "own-block-signature-lost",
						What:   fmt.Sprintf("node %d delivered block %d as a member of its validator set, but its signature for it is neither in its pool nor in any of its events", n.Idx, cr.Body.Index),
						Replay: replay(c, map[string]interface{}{"node": n.Idx, "block": cr.Body.Index})})
				}
			}
		}
		// internal transactions
		haveI := map[string]int{}
		for _, it := range cs.ItxPool {
			haveI[it.HashString()]++
		}
		for _, hex := range c.EvOrder {
			rec := c.Events[hex]
			if rec.CreatorIdx != n.Idx {
				continue
			}
			for _, it := range rec.Itxs {
				haveI[it.HashString()]++
			}
		}
		wantI := map[string]int{}
		for _, it := range n.Itxs {
			wantI[it.HashString()]++
		}
		for k, v := range wantI {
			if haveI[k] != v {
				out = append(out, ev.Violation{Property: "C05", Key: "internal-transaction-lost-or-duplicated",
					What:   fmt.Sprintf("node %d accepted a membership request %d time(s) but it is in its pool + own events %d time(s)", n.Idx, v, haveI[k]),
					Replay: replay(c, map[string]interface{}{"node": n.Idx})})
			}
		}
	}
	return out
}

var _ = bytes.Equal

func (m *Order) Counters() map[string]int {
	return map[string]int{"c04_frames_checked": m.FramesChecked, "c04_parent_pairs_checked": m.PairsChecked}
}
func (m *Integrity) Counters() map[string]int {
	return map[string]int{"c05_delivered_tx_checked": m.Checked, "c05_own_block_signatures_checked": m.SigsChecked}
}
