package mon

import (
	"bytes"
	"crypto/ecdsa"
	"crypto/sha256"
	"encoding/hex"
	"encoding/json"
	"fmt"
	"math/big"
	"strings"

	"github.com/mosaicnetworks/babble/src/crypto/keys"
	hg "github.com/mosaicnetworks/babble/src/hashgraph"
	"verif/harness/ev"
	"verif/harness/sim"
)

// ---------------------------------------------------------------------------
// C09 block signatures

// bodyDigest re-implements "SHA-256 of the JSON encoded body" independently of
// Block.Body.Hash.
func bodyDigest(b hg.BlockBody) []byte {
	var buf bytes.Buffer
	if err := json.NewEncoder(&buf).Encode(b); err != nil {
		panic(err)
	}
	h := sha256.Sum256(buf.Bytes())
	return h[:]
}

// verifySig checks a base-36 "r|s" signature with plain crypto/ecdsa.
var sigCache = map[string]bool{}

func verifySig(pubHex string, digest []byte, sig string) bool {
	k := pubHex + "/" + string(digest) + "/" + sig
	if v, ok := sigCache[k]; ok {
		return v
	}
	v := verifySigUncached(pubHex, digest, sig)
	if len(sigCache) > 500000 {
		sigCache = map[string]bool{}
	}
	sigCache[k] = v
	return v
}

func verifySigUncached(pubHex string, digest []byte, sig string) bool {
	parts := strings.Split(sig, "|")
	if len(parts) != 2 {
		return false
	}
	r, ok1 := new(big.Int).SetString(parts[0], 36)
	s, ok2 := new(big.Int).SetString(parts[1], 36)
	if !ok1 || !ok2 || r.Sign() <= 0 || s.Sign() <= 0 {
		return false
	}
	if len(pubHex) < 4 {
		return false
	}
	raw, err := hex.DecodeString(pubHex[2:])
	if err != nil || len(raw) != 65 {
		return false
	}
	pk := keys.ToPublicKey(raw)
	if pk == nil || pk.X == nil {
		return false
	}
	return ecdsa.Verify(pk, digest, r, s)
}

type BlockSigs struct {
	Byz        map[int]bool // harness-played Byzantine validators: excluded as observers
	anchor     map[int]int
	anchorGen  map[int]int
	SigsOK     int
	Anchors    int
	OwnSigs    int
	Attributed int
}

func NewBlockSigs() *BlockSigs {
	return &BlockSigs{Byz: map[int]bool{}, anchor: map[int]int{}, anchorGen: map[int]int{}}
}
func (m *BlockSigs) ID() string { return "C09" }

func (m *BlockSigs) AfterStep(c *sim.Cluster) []ev.Violation {
	var out []ev.Violation
	// index of signatures carried by events: creator → index → signature set
	carried := map[string]map[int]map[string]bool{}
	for _, hex := range c.EvOrder {
		rec := c.Events[hex]
		for _, bs := range rec.Sigs {
			if carried[rec.Creator] == nil {
				carried[rec.Creator] = map[int]map[string]bool{}
			}
			if carried[rec.Creator][bs.Index] == nil {
				carried[rec.Creator][bs.Index] = map[string]bool{}
			}
			carried[rec.Creator][bs.Index][bs.Signature] = true
		}
	}
	for _, n := range c.Nodes {
		if n == nil || n.Down || m.Byz[n.Idx] {
			continue
		}
		last := n.Store.LastBlockIndex()
		for i := 0; i <= last; i++ {
			b, err := n.Store.GetBlock(i)
			if err != nil {
				continue
			}
			dg := bodyDigest(b.Body)
			ps, perr := n.Store.GetPeerSet(b.RoundReceived())
			for val, sig := range b.Signatures {
				if !verifySig(val, dg, sig) {
					// the self-signature is made before the store copy is completed only if the body changed afterwards
					out = append(out, ev.Violation{Property: "C09", Key: "stored-signature-invalid",
						What:   fmt.Sprintf("node %d block %d: stored signature of %s does not verify against the node's own body of that block", n.Idx, i, who(c, val)),
						Replay: replay(c, map[string]interface{}{"node": n.Idx, "block": i})})
					continue
				}
				m.SigsOK++
				if perr == nil {
					if _, ok := ps.ByPubKey[strings.ToUpper(val)]; !ok {
						out = append(out, ev.Violation{Property: "C09", Key: "signer-not-in-round-set",
							What:   fmt.Sprintf("node %d block %d (round-received %d): recorded signature of %s who is not in that round's validator set", n.Idx, i, b.RoundReceived(), who(c, val)),
							Replay: replay(c, map[string]interface{}{"node": n.Idx, "block": i})})
					}
				}
				// attribution: recorded under V only if V itself signed at commit (V = this node) or an event of V carried it
				if strings.ToUpper(val) == n.Pub {
					continue
				}
				m.Attributed++
				if !carried[strings.ToUpper(val)][i][sig] {
					out = append(out, ev.Violation{Property: "C09", Key: "signature-misattributed",
						What:   fmt.Sprintf("node %d block %d: signature recorded under %s was never carried by an event of that creator", n.Idx, i, who(c, val)),
						Replay: replay(c, map[string]interface{}{"node": n.Idx, "block": i})})
				}
			}
		}
		// anchor
		h := n.Node.VHashgraph()
		gen := len(n.App.Restores)
		if h.AnchorBlock != nil {
			a := *h.AnchorBlock
			m.Anchors++
			if prev, ok := m.anchor[n.Idx]; ok && m.anchorGen[n.Idx] == gen && a < prev {
				out = append(out, ev.Violation{Property: "C09", Key: "anchor-moved-backwards",
					What:   fmt.Sprintf("node %d anchor block index moved from %d to %d without a reset", n.Idx, prev, a),
					Replay: replay(c, map[string]interface{}{"node": n.Idx})})
			}
			m.anchor[n.Idx], m.anchorGen[n.Idx] = a, gen
			if b, err := n.Store.GetBlock(a); err == nil {
				if ps, err := n.Store.GetPeerSet(b.RoundReceived()); err == nil {
					dg := bodyDigest(b.Body)
					valid := map[string]bool{}
					for val, sig := range b.Signatures {
						if _, ok := ps.ByPubKey[strings.ToUpper(val)]; ok && verifySig(val, dg, sig) {
							valid[strings.ToUpper(val)] = true
						}
					}
					np := len(ps.Peers)
					if !(3*len(valid) > np) || len(valid) < 1 {
						out = append(out, ev.Violation{Property: "C09", Key: "anchor-undersigned",
							What:   fmt.Sprintf("node %d offers block %d as anchor with valid signatures of %d distinct validators of %d", n.Idx, a, len(valid), np),
							Replay: replay(c, map[string]interface{}{"node": n.Idx, "block": a})})
					}
				}
			}
		} else {
			delete(m.anchor, n.Idx)
		}
	}
	// a node signs only blocks it delivered itself, over the body including the returned state hash
	for _, n := range c.Nodes {
		if n == nil || m.Byz[n.Idx] {
			continue
		}
		own := carried[n.Pub]
		if len(own) == 0 {
			continue
		}
		deliv := map[int][]byte{}
		for _, cr := range n.App.Commits {
			body := cr.Body
			body.StateHash = cr.StateHash
			body.InternalTransactionReceipts = cr.Receipts
			deliv[body.Index] = bodyDigest(body)
		}
		for idx, sigs := range own {
			for sig := range sigs {
				m.OwnSigs++
				dg, ok := deliv[idx]
				if !ok {
					if !n.FullHistory() || n.Restarted {
						continue // signatures made before a reset/restart refer to an earlier incarnation's deliveries
					}
					out = append(out, ev.Violation{Property: "C09", Key: "signed-undelivered-block",
						What:   fmt.Sprintf("an event of node %d carries its signature for block %d, which that node never delivered to its application", n.Idx, idx),
						Replay: replay(c, map[string]interface{}{"node": n.Idx, "block": idx})})
					continue
				}
				if !verifySig(n.Pub, dg, sig) {
					out = append(out, ev.Violation{Property: "C09", Key: "signed-different-body",
						What:   fmt.Sprintf("node %d's gossiped signature for block %d does not verify against the body it delivered (incl. state hash and receipts)", n.Idx, idx),
						Replay: replay(c, map[string]interface{}{"node": n.Idx, "block": idx})})
				}
			}
		}
	}
	return out
}

func who(c *sim.Cluster, pub string) string {
	if i, ok := c.PeerIdx[strings.ToUpper(pub)]; ok {
		return fmt.Sprintf("key %d", i)
	}
	if len(pub) > 12 {
		return pub[:12] + "…"
	}
	return pub
}

func (m *BlockSigs) Counters() map[string]int {
	return map[string]int{"c09_stored_signatures_verified": m.SigsOK, "c09_anchor_observations": m.Anchors, "c09_own_gossiped_signatures_checked": m.OwnSigs, "c09_foreign_signatures_attribution_checked": m.Attributed}
}

// VerifySig is the harness's independent signature check (plain crypto/ecdsa).
func VerifySig(pubHex string, digest []byte, sig string) bool { return verifySig(pubHex, digest, sig) }

// JSONDigest is SHA-256 over the encoding/json Encoder output of v.
func JSONDigest(v interface{}) []byte {
	var buf bytes.Buffer
	if err := json.NewEncoder(&buf).Encode(v); err != nil {
		return nil
	}
	h := sha256.Sum256(buf.Bytes())
	return h[:]
}
