package mon

import (
	"fmt"
	"sort"

	"verif/harness/ev"
	"verif/harness/sim"
)

// ---------------------------------------------------------------------------
// C18 block timestamps are Byzantine-tolerant medians

type Timestamps struct {
	consumed     map[int]int
	apps         map[int]*sim.App
	Blocks       int
	WithLiar     int // blocks whose famous witnesses include a liar's event
	LiarExtremes int // … and the liar's value was outside the honest range
}

func NewTimestamps() *Timestamps {
	return &Timestamps{consumed: map[int]int{}, apps: map[int]*sim.App{}}
}
func (m *Timestamps) ID() string { return "C18" }

func (m *Timestamps) AfterStep(c *sim.Cluster) []ev.Violation {
	var out []ev.Violation
	for _, n := range c.Nodes {
		if n == nil || n.Down {
			continue
		}
		if m.apps[n.Idx] != n.App {
			m.apps[n.Idx] = n.App
			m.consumed[n.Idx] = 0
		}
		for k := m.consumed[n.Idx]; k < len(n.App.Commits); k++ {
			cr := n.App.Commits[k]
			ri, err := n.Store.GetRound(cr.Body.RoundReceived)
			if err != nil {
				continue
			}
			var all, honest []int64
			liar := false
			liarVals := []int64{}
			for w, fame := range ri.VFame() {
				if fame != 1 {
					continue
				}
				rec := c.Events[w]
				if rec == nil {
					continue
				}
				all = append(all, rec.Timestamp)
				if _, isLiar := c.Cfg.Liars[rec.CreatorIdx]; isLiar {
					liar = true
					liarVals = append(liarVals, rec.Timestamp)
				} else {
					honest = append(honest, rec.Timestamp)
				}
			}
			if len(all) == 0 {
				continue
			}
			m.Blocks++
			sort.Slice(all, func(i, j int) bool { return all[i] < all[j] })
			sort.Slice(honest, func(i, j int) bool { return honest[i] < honest[j] })
			// median: the middle element, or anything between the two middle elements
			lo, hi := all[len(all)/2], all[len(all)/2]
			if len(all)%2 == 0 {
				lo, hi = all[len(all)/2-1], all[len(all)/2]
			}
			ts := cr.Body.Timestamp
			if ts < lo || ts > hi {
				out = append(out, ev.Violation{Property: "C18", Key: "not-the-median",
					What:   fmt.Sprintf("node %d block %d (round-received %d): timestamp %d is not a median of the famous witnesses' creation times %v", n.Idx, cr.Body.Index, cr.Body.RoundReceived, ts, all),
					Replay: replay(c, map[string]interface{}{"node": n.Idx, "block": cr.Body.Index})})
			}
			if liar {
				m.WithLiar++
				if len(honest) > 0 {
					for _, v := range liarVals {
						if v < honest[0] || v > honest[len(honest)-1] {
							m.LiarExtremes++
							break
						}
					}
				}
			}
			// fewer than a third of the round's validators lie => within the honest range
			ps, err := n.Store.GetPeerSet(cr.Body.RoundReceived)
			if err == nil && len(honest) > 0 {
				liars := 0
				for _, p := range ps.Peers {
					if idx, ok := c.PeerIdx[p.PubKeyString()]; ok {
						if _, l := c.Cfg.Liars[idx]; l {
							liars++
						}
					}
				}
				if 3*liars < len(ps.Peers) && (ts < honest[0] || ts > honest[len(honest)-1]) {
					out = append(out, ev.Violation{Property: "C18", Key: "outside-honest-range",
						What:   fmt.Sprintf("node %d block %d: timestamp %d outside the honest famous witnesses' range [%d,%d] with %d of %d validators lying (all famous witness times %v)", n.Idx, cr.Body.Index, ts, honest[0], honest[len(honest)-1], liars, len(ps.Peers), all),
						Replay: replay(c, map[string]interface{}{"node": n.Idx, "block": cr.Body.Index})})
				}
			}
		}
		m.consumed[n.Idx] = len(n.App.Commits)
	}
	return out
}

func (m *Timestamps) Counters() map[string]int {
	return map[string]int{"c18_blocks_checked": m.Blocks, "c18_blocks_with_liar_famous_witness": m.WithLiar, "c18_blocks_liar_outside_honest_range": m.LiarExtremes}
}
