package mon

import (
	"bytes"
	"fmt"
	"sort"
	"strings"

	hg "github.com/mosaicnetworks/babble/src/hashgraph"
	"github.com/mosaicnetworks/babble/src/peers"
	"verif/harness/ev"
	"verif/harness/sim"
)

// ---------------------------------------------------------------------------
// C10 validator-set history is a replayable function of the committed blocks

type nodeVS struct {
	app      *sim.App
	consumed int
	ref      map[int][]string // round → ordered pub keys (reference replay)
	cur      []string
	seenTab  map[int]string // what the node reported before (entries never change)
	ffStep   int
	fromRnd  int // compare only rounds >= fromRnd (after a fast-forward)
}

type ValSets struct {
	nodes   map[int]*nodeVS
	global  map[int]string
	globBy  map[int]int
	Entries int
	Changes int // executions' validator-set changes observed (non-triviality)
}

func NewValSets() *ValSets {
	return &ValSets{nodes: map[int]*nodeVS{}, global: map[int]string{}, globBy: map[int]int{}}
}
func (m *ValSets) ID() string { return "C10" }

func keysOf(ps []*peers.Peer) []string {
	r := make([]string, len(ps))
	for i, p := range ps {
		r[i] = p.PubKeyString()
	}
	return r
}

func lookup(ref map[int][]string, round int) []string {
	rs := []int{}
	for r := range ref {
		rs = append(rs, r)
	}
	sort.Ints(rs)
	if len(rs) == 0 {
		return nil
	}
	best := rs[0]
	for _, r := range rs {
		if r <= round {
			best = r
		}
	}
	return ref[best]
}

func applyReceipts(cur []string, receipts []hg.InternalTransactionReceipt) ([]string, bool) {
	changed := false
	out := append([]string{}, cur...)
	for _, r := range receipts {
		if !r.Accepted {
			continue
		}
		pk := r.InternalTransaction.Body.Peer.PubKeyString()
		switch r.InternalTransaction.Body.Type {
		case hg.PEER_ADD:
			found := false
			for _, k := range out {
				if k == pk {
					found = true
				}
			}
			if !found {
				out = append(out, pk)
			}
			changed = true
		case hg.PEER_REMOVE:
			nw := []string{}
			for _, k := range out {
				if k != pk {
					nw = append(nw, k)
				}
			}
			out = nw
			changed = true
		}
	}
	return out, changed
}

func (m *ValSets) AfterStep(c *sim.Cluster) []ev.Violation {
	var out []ev.Violation
	for _, n := range c.Nodes {
		if n == nil || n.Down {
			continue
		}
		st := m.nodes[n.Idx]
		if st == nil || st.app != n.App || st.ffStep != n.FFStep {
			st = &nodeVS{app: n.App, ref: map[int][]string{}, seenTab: map[int]string{}, ffStep: n.FFStep}
			m.nodes[n.Idx] = st
			if n.FFStep < 0 {
				st.cur = keysOf(c.Genesis)
				st.ref[0] = st.cur
			} else {
				// a reset node starts from the table it adopted; only its evolution from here on is replayed
				all, _ := n.Node.GetAllValidatorSets()
				maxr := -1
				for r, ps := range all {
					st.ref[r] = keysOf(ps)
					if r > maxr {
						maxr = r
					}
				}
				if maxr >= 0 {
					st.cur = st.ref[maxr]
				}
				// "all honest nodes report the same validator-set history": what the reset node adopted must
				// contain every entry a full-history node holds up to the latest adopted round
				for _, f := range c.Nodes {
					if f == nil || f.Down || !f.FullHistory() || f.Idx == n.Idx {
						continue
					}
					fall, err := f.Node.GetAllValidatorSets()
					if err != nil {
						continue
					}
					for r, ps := range fall {
						if r > maxr {
							continue
						}
						want := strings.Join(keysOf(ps), ",")
						got, ok := st.ref[r]
						if !ok || strings.Join(got, ",") != want {
							out = append(out, ev.Violation{Property: "C10", Key: "reset-node-history-differs",
								What:   fmt.Sprintf("node %d reset itself from a peer's frame and now reports [%s] (present=%v) as validator set of round %d; full-history node %d reports [%s]", n.Idx, abbrev(c, strings.Join(got, ",")), ok, r, f.Idx, abbrev(c, want)),
								Replay: replay(c, map[string]interface{}{"node": n.Idx, "round": r})})
						}
					}
					break
				}
				if lb, ok := n.Node.VHashgraph().VRoundLowerBound(); ok {
					st.fromRnd = lb
				}
				st.consumed = len(n.App.Commits)
			}
		}
		for k := st.consumed; k < len(n.App.Commits); k++ {
			cr := n.App.Commits[k]
			nw, changed := applyReceipts(st.cur, cr.Receipts)
			if changed {
				st.cur = nw
				st.ref[cr.Body.RoundReceived+6] = nw
				m.Changes++
			}
		}
		st.consumed = len(n.App.Commits)

		all, err := n.Node.GetAllValidatorSets()
		if err != nil {
			continue
		}
		// entry by entry equality with the reference replay
		for r, ps := range all {
			m.Entries++
			got := strings.Join(keysOf(ps), ",")
			if prev, ok := st.seenTab[r]; ok && prev != got {
				out = append(out, ev.Violation{Property: "C10", Key: "entry-changed",
					What:   fmt.Sprintf("node %d: validator set recorded for round %d changed from [%s] to [%s]", n.Idx, r, abbrev(c, prev), abbrev(c, got)),
					Replay: replay(c, map[string]interface{}{"node": n.Idx, "round": r})})
			}
			st.seenTab[r] = got
			want, ok := st.ref[r]
			if !ok {
				out = append(out, ev.Violation{Property: "C10", Key: "unexpected-entry",
					What:   fmt.Sprintf("node %d records a validator set [%s] for round %d that no committed receipt accounts for", n.Idx, abbrev(c, got), r),
					Replay: replay(c, map[string]interface{}{"node": n.Idx, "round": r})})
			} else if strings.Join(want, ",") != got {
				out = append(out, ev.Violation{Property: "C10", Key: "entry-differs-from-replay",
					What:   fmt.Sprintf("node %d: validator set for round %d is [%s], replay of its committed blocks gives [%s]", n.Idx, r, abbrev(c, got), abbrev(c, strings.Join(want, ","))),
					Replay: replay(c, map[string]interface{}{"node": n.Idx, "round": r})})
			}
			if r >= st.fromRnd {
				if g, ok := m.global[r]; !ok {
					m.global[r] = got
					m.globBy[r] = n.Idx
				} else if g != got {
					out = append(out, ev.Violation{Property: "C10", Key: "nodes-disagree",
						What:   fmt.Sprintf("validator set for round %d: node %d has [%s], node %d has [%s]", r, n.Idx, abbrev(c, got), m.globBy[r], abbrev(c, g)),
						Replay: replay(c, map[string]interface{}{"node": n.Idx, "round": r})})
				}
			}
		}
		for r := range st.ref {
			if _, ok := all[r]; !ok {
				out = append(out, ev.Violation{Property: "C10", Key: "missing-entry",
					What:   fmt.Sprintf("node %d has no validator-set entry for round %d although an accepted receipt was committed for it", n.Idx, r),
					Replay: replay(c, map[string]interface{}{"node": n.Idx, "round": r})})
			}
		}
		// GetValidatorSet(r) for every r up to last round + 8
		last := n.Store.LastRound()
		for r := st.fromRnd; r <= last+8; r++ {
			ps, err := n.Node.GetValidatorSet(r)
			if err != nil {
				continue
			}
			want := lookup(st.ref, r)
			if strings.Join(keysOf(ps), ",") != strings.Join(want, ",") {
				out = append(out, ev.Violation{Property: "C10", Key: "lookup-differs-from-replay",
					What:   fmt.Sprintf("node %d: GetValidatorSet(%d) = [%s], replay gives [%s]", n.Idx, r, abbrev(c, strings.Join(keysOf(ps), ",")), abbrev(c, strings.Join(want, ","))),
					Replay: replay(c, map[string]interface{}{"node": n.Idx, "round": r})})
				break
			}
		}
		// peers hash of every delivered block = hash of the set effective at its round received
		for _, cr := range n.App.Commits {
			if cr.Body.RoundReceived < st.fromRnd {
				continue
			}
			want := lookup(st.ref, cr.Body.RoundReceived)
			pl := make([]*peers.Peer, len(want))
			for i, k := range want {
				pl[i] = peers.NewPeer(k, "", "")
			}
			hsh, _ := peers.NewPeerSet(pl).Hash()
			if !bytes.Equal(hsh, cr.Body.PeersHash) {
				out = append(out, ev.Violation{Property: "C10", Key: "peers-hash-mismatch",
					What:   fmt.Sprintf("node %d: block %d (round-received %d) peers hash is not the hash of the set effective at that round [%s]", n.Idx, cr.Body.Index, cr.Body.RoundReceived, abbrev(c, strings.Join(want, ","))),
					Replay: replay(c, map[string]interface{}{"node": n.Idx, "block": cr.Body.Index})})
			}
		}
		// only members of a round's set are witnesses of that round
		for r := st.fromRnd; r <= last; r++ {
			ri, err := n.Store.GetRound(r)
			if err != nil {
				continue
			}
			set := map[string]bool{}
			for _, k := range lookup(st.ref, r) {
				set[k] = true
			}
			for w, isW := range ri.VCreated() {
				if !isW {
					continue
				}
				rec := c.Events[w]
				if rec == nil {
					continue
				}
				if !set[rec.Creator] {
					out = append(out, ev.Violation{Property: "C10", Key: "witness-not-in-round-set",
						What:   fmt.Sprintf("node %d: event %s by key %d is a witness of round %d but its creator is not in that round's validator set", n.Idx, short(w), rec.CreatorIdx, r),
						Replay: replay(c, map[string]interface{}{"node": n.Idx, "round": r})})
				}
			}
		}
	}
	return out
}

func abbrev(c *sim.Cluster, keys string) string {
	if keys == "" {
		return ""
	}
	parts := strings.Split(keys, ",")
	for i, k := range parts {
		if idx, ok := c.PeerIdx[k]; ok {
			parts[i] = fmt.Sprintf("k%d", idx)
		} else if len(k) > 8 {
			parts[i] = k[:8]
		}
	}
	return strings.Join(parts, " ")
}

func (m *ValSets) Counters() map[string]int {
	return map[string]int{"c10_table_entries_compared": m.Entries, "c10_set_changes_replayed": m.Changes}
}
