package mon

import (
	"encoding/hex"
	"fmt"

	"verif/harness/ev"
	"verif/harness/sim"
)

// FrameEq: frames computed independently by full-history nodes for the same
// round have the same hash (C13, second clause).
type FrameEq struct {
	hash     map[int]string
	by       map[int]int
	done     map[int]map[int]bool
	Compared int
}

func NewFrameEq() *FrameEq {
	return &FrameEq{hash: map[int]string{}, by: map[int]int{}, done: map[int]map[int]bool{}}
}
func (m *FrameEq) ID() string { return "C13" }

func (m *FrameEq) AfterStep(c *sim.Cluster) []ev.Violation {
	var out []ev.Violation
	for _, n := range c.Nodes {
		if n == nil || n.Down || !n.FullHistory() {
			continue
		}
		h := n.Node.VHashgraph()
		if h.LastConsensusRound == nil {
			continue
		}
		if m.done[n.Idx] == nil {
			m.done[n.Idx] = map[int]bool{}
		}
		for r := 0; r <= *h.LastConsensusRound; r++ {
			if m.done[n.Idx][r] {
				continue
			}
			f, err := n.Store.GetFrame(r)
			if err != nil {
				continue
			}
			m.done[n.Idx][r] = true
			hb, err := f.Hash()
			if err != nil {
				continue
			}
			hs := hex.EncodeToString(hb)
			m.Compared++
			if prev, ok := m.hash[r]; !ok {
				m.hash[r], m.by[r] = hs, n.Idx
			} else if prev != hs {
				out = append(out, ev.Violation{Property: "C13", Key: "frames-differ",
					What:   fmt.Sprintf("frame of round %d: node %d computed hash %s…, node %d computed %s…", r, n.Idx, hs[:12], m.by[r], prev[:12]),
					Replay: replay(c, map[string]interface{}{"node": n.Idx, "round": r})})
			}
		}
	}
	return out
}

func (m *FrameEq) Counters() map[string]int { return map[string]int{"c13_frames_compared": m.Compared} }
