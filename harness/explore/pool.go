// Package explore holds the generic exploration machinery: a pool of worker
// subprocesses that the work is sharded over, and choice-sequence enumerators.
package explore

import (
	"bufio"
	"bytes"
	"encoding/json"
	"fmt"
	"io"
	"os"
	"os/exec"
	"runtime"
	"sync"
	"time"
)

// WorkerFn handles one work item in a worker process.
type WorkerFn func(spec json.RawMessage) (json.RawMessage, error)

var registry = map[string]WorkerFn{}

// Register makes fn available as worker mode name.
func Register(name string, fn WorkerFn) { registry[name] = fn }

// WorkerMain is the main loop of a worker process: one JSON item per line on
// stdin, one JSON result per line on stdout.
func WorkerMain(mode string) {
	fn, ok := registry[mode]
	if !ok {
		fmt.Fprintf(os.Stderr, "unknown worker mode %q\n", mode)
		os.Exit(2)
	}
	// a worker never outlives the process that started it (a killed parent
	// would otherwise leave a worker that hangs in an item behind for good)
	parent := os.Getppid()
	go func() {
		for {
			time.Sleep(2 * time.Second)
			if os.Getppid() != parent {
				os.Exit(3)
			}
		}
	}()
	in := bufio.NewReaderSize(os.Stdin, 1<<20)
	out := bufio.NewWriter(os.Stdout)
	for {
		line, err := in.ReadBytes('\n')
		if len(bytes.TrimSpace(line)) > 0 {
			res, ferr := fn(json.RawMessage(bytes.TrimSpace(line)))
			w := wireResult{Res: res}
			if ferr != nil {
				w.Err = ferr.Error()
			}
			raw, _ := json.Marshal(w)
			out.Write(raw)
			out.WriteByte('\n')
			out.Flush()
		}
		if err != nil {
			return
		}
	}
}

type wireResult struct {
	Res json.RawMessage `json:"res"`
	Err string          `json:"err,omitempty"`
}

// PoolResult is the outcome of one item.
type PoolResult struct {
	Index   int
	Res     json.RawMessage
	Err     string // worker function error
	Crashed string // worker process died while handling the item (stderr tail)
}

// Pool runs items on worker subprocesses.
type Pool struct {
	Mode     string
	Workers  int
	Deadline time.Time // zero: none. After it no new items are handed out.
	Env      []string
	// ItemTimeout: a worker that does not answer an item within this time is
	// killed and the item reported as Crashed with "TIMEOUT" (default 20 min).
	ItemTimeout time.Duration
	// Recycle > 0: a worker process handles at most this many items, then a fresh one is started.
	Recycle int
}

// Workers returns the default worker count.
func DefaultWorkers() int {
	n := runtime.NumCPU()
	if n > 16 {
		n = 16
	}
	if n < 1 {
		n = 1
	}
	return n
}

// Run processes all items; handle is called (serialised) for each result.
// Returns the number of items that were handed out (== len(items) unless the
// deadline was hit).
func (p *Pool) Run(items []json.RawMessage, handle func(PoolResult)) int {
	if p.Workers <= 0 {
		p.Workers = DefaultWorkers()
	}
	if p.Workers > len(items) {
		p.Workers = len(items)
	}
	var mu sync.Mutex
	next := 0
	abandoned := 0
	take := func() int {
		mu.Lock()
		defer mu.Unlock()
		if next >= len(items) {
			return -1
		}
		if !p.Deadline.IsZero() && time.Now().After(p.Deadline) {
			return -1
		}
		i := next
		next++
		return i
	}
	var hmu sync.Mutex
	emit := func(r PoolResult) {
		hmu.Lock()
		defer hmu.Unlock()
		handle(r)
	}
	var wg sync.WaitGroup
	for w := 0; w < p.Workers; w++ {
		wg.Add(1)
		go func() {
			defer wg.Done()
			pending := -1
			for {
				i := pending
				pending = -1
				if i < 0 {
					i = take()
				}
				if i < 0 {
					return
				}
				handled := 0
				// (re)start a worker process and feed it items until it dies or we are done
				cmd := exec.Command(os.Args[0], "--worker", p.Mode)
				cmd.Env = append(append(os.Environ(), "GOMAXPROCS=2", "VERIF_WORKER=1"), p.Env...)
				stdin, _ := cmd.StdinPipe()
				stdout, _ := cmd.StdoutPipe()
				var stderr tailBuf
				cmd.Stderr = &stderr
				if err := cmd.Start(); err != nil {
					emit(PoolResult{Index: i, Crashed: "cannot start worker: " + err.Error()})
					return
				}
				rd := bufio.NewReaderSize(stdout, 1<<20)
				for i >= 0 {
					stdin.Write(append(append([]byte{}, items[i]...), '\n'))
					to := p.ItemTimeout
					if to == 0 {
						to = 20 * time.Minute
					}
					timedOut := false
					timer := time.AfterFunc(to, func() {
						timedOut = true
						cmd.Process.Kill()
					})
					// an item still running some time after the pool's deadline is abandoned: it counts as not explored
					// (the run reports exhaustive:false), not as a failure
					cutOff := false
					var cutTimer *time.Timer
					if !p.Deadline.IsZero() {
						d := time.Until(p.Deadline) + deadlineGrace
						if d < deadlineGrace {
							d = deadlineGrace
						}
						cutTimer = time.AfterFunc(d, func() {
							cutOff = true
							cmd.Process.Kill()
						})
					}
					line, err := rd.ReadBytes('\n')
					timer.Stop()
					if cutTimer != nil {
						cutTimer.Stop()
					}
					if err != nil {
						stdin.Close()
						cmd.Wait()
						if cutOff && !timedOut {
							mu.Lock()
							abandoned++
							mu.Unlock()
							return
						}
						if timedOut {
							emit(PoolResult{Index: i, Crashed: fmt.Sprintf("TIMEOUT: no answer within %v; last output: %s", to, stderr.String())})
						} else {
							emit(PoolResult{Index: i, Crashed: "worker died: " + stderr.String()})
						}
						break
					}
					var wr wireResult
					if jerr := json.Unmarshal(line, &wr); jerr != nil {
						emit(PoolResult{Index: i, Crashed: "bad worker output: " + string(line)})
					} else {
						emit(PoolResult{Index: i, Res: wr.Res, Err: wr.Err})
					}
					i = take()
					handled++
					if p.Recycle > 0 && handled >= p.Recycle && i >= 0 {
						// a fresh process for the next item (what a long-lived worker accumulates - Badger instances
						// opened and closed by the thousand keep memory - is given back to the system)
						stdin.Close()
						io.Copy(io.Discard, rd)
						cmd.Wait()
						pending = i
						break
					}
				}
				if pending >= 0 {
					continue
				}
				if i < 0 {
					stdin.Close()
					io.Copy(io.Discard, rd)
					cmd.Wait()
					return
				}
			}
		}()
	}
	wg.Wait()
	return next - abandoned
}

// deadlineGrace: how long after the pool's deadline an item in progress may still finish.
const deadlineGrace = 2 * time.Minute

// tailBuf keeps the last 8 KB written to it.
type tailBuf struct {
	mu  sync.Mutex
	buf []byte
}

func (t *tailBuf) Write(p []byte) (int, error) {
	t.mu.Lock()
	defer t.mu.Unlock()
	t.buf = append(t.buf, p...)
	if len(t.buf) > 16384 {
		t.buf = t.buf[len(t.buf)-8192:]
	}
	return len(p), nil
}

func (t *tailBuf) String() string {
	t.mu.Lock()
	defer t.mu.Unlock()
	return string(t.buf)
}

// Call runs a registered worker function in this process.
func Call(mode string, spec json.RawMessage) (json.RawMessage, error) {
	fn, ok := registry[mode]
	if !ok {
		return nil, fmt.Errorf("unknown worker mode %q", mode)
	}
	return fn(spec)
}
