package sched

import (
	"fmt"

	"verif/harness/sim"
)

// FairSeed: rotating round-robin gossip among nodes with a transaction
// submitted every txEvery steps (0: never).
func FairSeed(nodes []int, steps int, txEvery int) []Action {
	var s []Action
	n := len(nodes)
	for k := 0; k < steps; k++ {
		i := k % n
		j := i
		if n > 1 {
			j = (i + 1 + (k/n)%(n-1)) % n
		}
		if txEvery > 0 && k%txEvery == 0 {
			s = append(s, Action{K: "T", A: nodes[i]})
		}
		if n == 1 {
			s = append(s, Action{K: "M", A: nodes[0]})
		} else {
			s = append(s, Action{K: "G", A: nodes[i], B: nodes[j]})
		}
	}
	return s
}

// FairSeedR: as FairSeed, but the submissions rotate over all nodes (FairSeed submits at the node whose turn it is at
// every txEvery-th step, which for 2 or 4 nodes and txEvery = 4 is always node 0).
func FairSeedR(nodes []int, steps int, txEvery int) []Action {
	var out []Action
	t := 0
	for _, a := range FairSeed(nodes, steps, txEvery) {
		if a.K == "T" {
			a.A = nodes[t%len(nodes)]
			t++
		}
		out = append(out, a)
	}
	return out
}

// StaticR / LateWitnessR: the static and late-witness seeds with rotating submissions.
func StaticR(n, steps int) *Scenario {
	return &Scenario{Name: fmt.Sprintf("staticr%d", n), Cfg: sim.Config{N: n}, Seed: FairSeedR(seq(n), steps, 4)}
}

func LateWitnessR(quiet, steps int) *Scenario {
	seed := FairSeedR(seq(4), 9, 4)
	seed = append(seed, Action{K: "S", A: 3})
	seed = append(seed, FairSeedR([]int{0, 1, 2}, quiet, 4)...)
	seed = append(seed, Action{K: "H", A: 3})
	seed = append(seed, FairSeedR(seq(4), steps, 4)...)
	return &Scenario{Name: "latewitnessr4", Cfg: sim.Config{N: 4}, Seed: seed}
}

func seq(n int) []int {
	r := make([]int, n)
	for i := range r {
		r[i] = i
	}
	return r
}

// Static returns the static n-validator scenario with a fair seed.
func Static(n, steps int) *Scenario {
	return &Scenario{Name: fmt.Sprintf("static%d", n), Cfg: sim.Config{N: n}, Seed: FairSeed(seq(n), steps, 4)}
}

// StaticSilent: n validators, node `silent` goes silent at step `at` of the seed.
func StaticSilent(n, steps, silent, at int) *Scenario {
	live := []int{}
	for i := 0; i < n; i++ {
		if i != silent {
			live = append(live, i)
		}
	}
	seed := FairSeed(seq(n), at, 4)
	seed = append(seed, Action{K: "S", A: silent})
	seed = append(seed, FairSeed(live, steps-at, 4)...)
	return &Scenario{Name: fmt.Sprintf("static%d-silent%d@%d", n, silent, at), Cfg: sim.Config{N: n}, Seed: seed}
}

// LateWitness: n=4, node 3 silent for a while then healed: its witnesses
// arrive after their rounds were decided elsewhere.
func LateWitness(steps int) *Scenario {
	seed := FairSeed(seq(4), 8, 4)
	seed = append(seed, Action{K: "S", A: 3})
	seed = append(seed, FairSeed([]int{0, 1, 2}, 30, 4)...)
	seed = append(seed, Action{K: "H", A: 3})
	seed = append(seed, FairSeed(seq(4), steps, 4)...)
	return &Scenario{Name: "latewitness4", Cfg: sim.Config{N: 4}, Seed: seed}
}

// Returning: n=4, node 3 takes part for `warm` steps, is silent (nobody hears from it, nobody refers to its
// events) for `quiet` steps of gossip among the other three, then comes back for `steps` steps: its next event
// has a self-parent that is `quiet` steps (about two events per step) old.
func Returning(warm, quiet, steps int) *Scenario {
	seed := FairSeed(seq(4), warm, 4)
	seed = append(seed, Action{K: "S", A: 3})
	seed = append(seed, FairSeed([]int{0, 1, 2}, quiet, 4)...)
	seed = append(seed, Action{K: "H", A: 3})
	seed = append(seed, FairSeed(seq(4), steps, 4)...)
	return &Scenario{Name: fmt.Sprintf("returning4-%d", quiet), Cfg: sim.Config{N: 4}, Seed: seed}
}

// Join: n genesis validators, key n joins through validator 0 after `at`
// fair steps; the joiner replays history from genesis (no fast-sync).
func Join(n, at, steps int) *Scenario {
	seed := FairSeed(seq(n), at, 4)
	seed = append(seed, Action{K: "Start", A: n, B: 0}, Action{K: "J", A: n, B: 0})
	// the joiner takes part in the round-robin from now on; its gossip is a
	// no-op error until it has been accepted
	seed = append(seed, FairSeed(seq(n+1), steps, 5)...)
	return &Scenario{Name: fmt.Sprintf("join%dto%d", n, n+1), Cfg: sim.Config{N: n}, Seed: seed, Asked: map[int]int{n: 0}}
}

// Leave: n validators, node n-1 submits its leave request after `at` steps.
func Leave(n, at, steps int) *Scenario {
	seed := FairSeed(seq(n), at, 4)
	seed = append(seed, Action{K: "L", A: n - 1})
	seed = append(seed, FairSeed(seq(n), steps, 5)...)
	return &Scenario{Name: fmt.Sprintf("leave%dto%d", n, n-1), Cfg: sim.Config{N: n}, Seed: seed}
}

// TwoLeaves: n validators, the last two submit their leave requests in
// consecutive steps (both requests end up in one block).
func TwoLeaves(n, at, steps int) *Scenario {
	seed := FairSeed(seq(n), at, 4)
	seed = append(seed, Action{K: "L", A: n - 2}, Action{K: "L", A: n - 1})
	seed = append(seed, FairSeed(seq(n), steps, 5)...)
	return &Scenario{Name: fmt.Sprintf("twoleaves%d", n), Cfg: sim.Config{N: n}, Seed: seed}
}

// JoinLeave: key n asks to join and validator n-1 asks to leave in
// consecutive steps (both requests end up in one block).
func JoinLeave(n, at, steps int) *Scenario {
	seed := FairSeed(seq(n), at, 4)
	// both requests go into the pool of validator n-1, hence into one event and one block (join first)
	seed = append(seed, Action{K: "Start", A: n, B: n - 1}, Action{K: "J", A: n, B: n - 1}, Action{K: "L", A: n - 1})
	seed = append(seed, FairSeed(seq(n+1), steps, 5)...)
	return &Scenario{Name: fmt.Sprintf("joinleave%d", n), Cfg: sim.Config{N: n}, Seed: seed, Asked: map[int]int{n: n - 1}}
}

// Laggards: n validators of which the last k are one-way laggards for a
// while: after `warm` fair steps the first n-k gossip among themselves and
// every laggard keeps pulling from them (so it creates events, witnesses
// included, in every round) but nobody hears from it for `quiet` steps; then
// everybody gossips fairly again. The laggards' witnesses of rounds that the
// others have already processed arrive late, k of them per round.
func Laggards(n, k, warm, quiet, steps int) *Scenario {
	live := seq(n - k)
	seed := FairSeed(seq(n), warm, 4)
	for s := 0; s < quiet; s++ {
		seed = append(seed, FairSeed(live, s+1, 4)[len(FairSeed(live, s, 4)):]...)
		if s%2 == 1 {
			for l := n - k; l < n; l++ {
				seed = append(seed, Action{K: "P", A: l, B: (s/2 + l) % (n - k)})
			}
		}
	}
	seed = append(seed, FairSeed(seq(n), steps, 4)...)
	return &Scenario{Name: fmt.Sprintf("laggards%d-%d", n, k), Cfg: sim.Config{N: n}, Seed: seed}
}

// Unheard: as Laggards, but every laggard accepts a transaction at the start of the quiet period and records it in an
// event (one pull), which then nobody hears of while the others advance by many rounds. pull=1: the laggards keep
// pulling (and keep up with the rounds); pull=0: they are cut off completely until the quiet period ends.
func Unheard(n, k, warm, quiet, steps, pull int) *Scenario {
	live := seq(n - k)
	seed := FairSeed(seq(n), warm, 4)
	for l := n - k; l < n; l++ {
		seed = append(seed, Action{K: "T", A: l}, Action{K: "P", A: l, B: l % (n - k)})
	}
	for s := 0; s < quiet; s++ {
		seed = append(seed, FairSeed(live, s+1, 4)[len(FairSeed(live, s, 4)):]...)
		if pull == 1 && s%2 == 1 {
			for l := n - k; l < n; l++ {
				seed = append(seed, Action{K: "P", A: l, B: (s/2 + l) % (n - k)})
			}
		}
		if pull == 1 && s == quiet/2 {
			for l := n - k; l < n; l++ {
				seed = append(seed, Action{K: "T", A: l})
			}
		}
	}
	seed = append(seed, FairSeed(seq(n), steps, 4)...)
	return &Scenario{Name: fmt.Sprintf("unheard%d-%d-%d", n, k, pull), Cfg: sim.Config{N: n}, Seed: seed}
}

// Rejoin: validator n-1 leaves after `at` steps, the others go on for `mid`
// steps (the removal becomes effective and the leaver suspends itself), then
// the same key is started again with an empty store, asks validator 0 to join
// and replays history from genesis (including its own former events).
func Rejoin(n, at, mid, steps int) *Scenario {
	seed := FairSeed(seq(n), at, 4)
	seed = append(seed, Action{K: "L", A: n - 1})
	seed = append(seed, FairSeed(seq(n), mid, 5)...)
	seed = append(seed, Action{K: "Start", A: n - 1, B: 0}, Action{K: "J", A: n - 1, B: 0})
	seed = append(seed, FairSeed(seq(n), steps, 5)...)
	return &Scenario{Name: fmt.Sprintf("rejoin%d", n), Cfg: sim.Config{N: n}, Seed: seed, Asked: map[int]int{n - 1: 0}}
}

// Refused: key n asks to join and every application refuses it; the joiner
// stays outside (it never gossips), the validators go on.
func Refused(n, at, steps int) *Scenario {
	seed := FairSeed(seq(n), at, 4)
	seed = append(seed, Action{K: "Start", A: n, B: 0}, Action{K: "J", A: n, B: 0})
	seed = append(seed, FairSeed(seq(n), steps, 5)...)
	return &Scenario{Name: fmt.Sprintf("refused%d", n), Cfg: sim.Config{N: n, RefuseJoin: map[int]bool{n: true}}, Seed: seed, Asked: map[int]int{n: 0}}
}

// Partition: after `at` fair steps the validators split into [0,k) and [k,n)
// which gossip only among themselves for `length` steps each (neither side
// needs to hold a supermajority), then the partition heals.
func Partition(n, k, at, length, steps int) *Scenario {
	seed := FairSeed(seq(n), at, 4)
	a, b := FairSeed(seq(n)[:k], length, 4), FairSeed(seq(n)[k:], length, 4)
	for len(a) > 0 || len(b) > 0 {
		if len(a) > 0 {
			seed, a = append(seed, a[0]), a[1:]
		}
		if len(b) > 0 {
			seed, b = append(seed, b[0]), b[1:]
		}
	}
	seed = append(seed, FairSeed(seq(n), steps, 4)...)
	return &Scenario{Name: fmt.Sprintf("partition%d-%d", n, k), Cfg: sim.Config{N: n}, Seed: seed}
}

// Dups: the static scenario in which every submission has the same content
// ("dup"), every third one is made twice in a row at the same node (one event
// then carries the same bytes twice) and every fifth one is also made at the
// next node (two events of one round carry the same bytes).
func Dups(n, steps int) *Scenario {
	var seed []Action
	k := 0
	for _, a := range FairSeed(seq(n), steps, 3) {
		if a.K != "T" {
			seed = append(seed, a)
			continue
		}
		seed = append(seed, Action{K: "TD", A: a.A})
		if k%3 == 0 {
			seed = append(seed, Action{K: "TD", A: a.A})
		}
		if k%5 == 0 {
			seed = append(seed, Action{K: "TD", A: (a.A + 1) % n})
		}
		k++
	}
	return &Scenario{Name: fmt.Sprintf("dups%d", n), Cfg: sim.Config{N: n}, Seed: seed}
}

// LeaveSilent: 5 validators; validator 4 asks to leave after `at` steps and goes silent ten steps later; after p more
// steps validator 3 goes silent as well ("SP": the step records whether, at that moment, every remaining validator has
// the leave in its validator-set table and a head in or after the round E from which the set has four members – from
// then on the three remaining validators are more than two thirds of every round's set that still has to be built,
// which is the premise of the liveness property; earlier, three of five are not). The remaining three go on for
// `steps` steps.
func LeaveSilent(at, p, steps int) *Scenario {
	seed := FairSeed(seq(5), at, 4)
	seed = append(seed, Action{K: "L", A: 4})
	seed = append(seed, FairSeed(seq(5), 10, 5)...)
	seed = append(seed, Action{K: "S", A: 4})
	seed = append(seed, FairSeed([]int{0, 1, 2, 3}, p, 4)...)
	seed = append(seed, Action{K: "SP", A: 3, B: 4})
	seed = append(seed, FairSeed([]int{0, 1, 2}, steps, 4)...)
	return &Scenario{Name: fmt.Sprintf("leavesilent@%d", p), Cfg: sim.Config{N: 5}, Seed: seed, CountsPremise: true}
}

// BigTx: n validators; before every exchange the initiating validator's application submits a transaction of
// `kib` KiB (distinct contents), so that every event carries a large payload.
func BigTx(n, steps, kib int) *Scenario {
	var seed []Action
	k := 0
	for _, a := range FairSeed(seq(n), steps, 0) {
		body := make([]byte, kib*1024)
		for i := range body {
			body[i] = byte('a' + (i+k)%23)
		}
		seed = append(seed, Action{K: "T", A: a.A, Tx: fmt.Sprintf("big-%d-%d-", a.A, k) + string(body)})
		seed = append(seed, a)
		k++
	}
	return &Scenario{Name: fmt.Sprintf("bigtx%d-%dk", n, kib), Cfg: sim.Config{N: n}, Seed: seed}
}

// Burst: the static scenario in which, after `at` steps, validator 0's application submits k transactions in a row
// (all pending when it records its next event) and, a few steps later, validator 1's application does the same.
func Burst(n, at, k, steps int) *Scenario {
	seed := FairSeed(seq(n), at, 3)
	for i := 0; i < k; i++ {
		seed = append(seed, Action{K: "T", A: 0})
	}
	seed = append(seed, FairSeed(seq(n), 4, 0)...)
	for i := 0; i < k; i++ {
		seed = append(seed, Action{K: "T", A: 1})
	}
	seed = append(seed, FairSeed(seq(n), steps, 3)...)
	return &Scenario{Name: fmt.Sprintf("burst%d-%d", n, k), Cfg: sim.Config{N: n}, Seed: seed}
}

// Slow: n validators; validator n-1 takes only every `period`-th of its turns
// in the round-robin (those with turn%period == offset) while the others keep
// gossiping with it: its witnesses appear late in every round and elections
// of different rounds finish out of order.
func Slow(n, period, offset, steps int) *Scenario {
	var seed []Action
	turn := 0
	for _, a := range FairSeed(seq(n), steps, 4) {
		if a.A == n-1 {
			if a.K == "G" {
				turn++
			}
			if turn%period != offset {
				continue
			}
		}
		seed = append(seed, a)
	}
	return &Scenario{Name: fmt.Sprintf("slow%d", n), Cfg: sim.Config{N: n}, Seed: seed}
}

// Irregular: a fixed irregular schedule, fully determined by its parameters
// (a 64-bit LCG seeded with `seed` picks the gossiping pair of every step;
// validator `n-1` is picked as initiator four times less often than the
// others, so elections regularly stay open for several rounds). kind 1: the
// last validator asks to leave at step 8; kind 2: key n asks validator 0 to
// join at step 8; kind 3: both. A transaction is submitted every 6th step.
// These are ordinary named seeds: the interesting ones are picked offline and
// listed by number in the checks.
func Irregular(n, seed, steps, kind int) *Scenario {
	x := uint64(seed)*2862933555777941757 + 3037000493
	next := func(m int) int {
		x = x*6364136223846793005 + 1442695040888963407
		return int((x >> 33) % uint64(m))
	}
	sc := &Scenario{Name: fmt.Sprintf("irregular%d-%d", n, seed), Cfg: sim.Config{N: n}}
	total := n
	if kind == 2 || kind == 3 {
		total = n + 1
		sc.Asked = map[int]int{n: 0}
	}
	for k := 0; k < steps; k++ {
		if k == 8 {
			if kind == 2 || kind == 3 {
				sc.Seed = append(sc.Seed, Action{K: "Start", A: n, B: 0}, Action{K: "J", A: n, B: 0})
			}
			if kind == 1 || kind == 3 {
				sc.Seed = append(sc.Seed, Action{K: "L", A: n - 1})
			}
		}
		m := n
		if k > 8 {
			m = total
		}
		a := next(m)
		if a == n-1 && next(4) != 0 {
			a = next(m)
		}
		b := next(m - 1)
		if b >= a {
			b++
		}
		if k%6 == 0 {
			sc.Seed = append(sc.Seed, Action{K: "T", A: a})
		}
		sc.Seed = append(sc.Seed, Action{K: "G", A: a, B: b})
	}
	return sc
}

// UnknownItx: n validators; after `at` steps validator 0 is handed a signed
// internal transaction of an unknown type concerning validator 1's key, and
// validator 1 one concerning an outsider's key (n+3).
func UnknownItx(n, at, steps int) *Scenario {
	seed := FairSeed(seq(n), at, 4)
	seed = append(seed, Action{K: "IX", A: 0, B: 1}, Action{K: "IX", A: 1, B: n + 3})
	seed = append(seed, FairSeed(seq(n), steps, 4)...)
	return &Scenario{Name: fmt.Sprintf("unknownitx%d", n), Cfg: sim.Config{N: n}, Seed: seed}
}

// CommitFault: the static scenario in which node `node`'s application applies its k-th block but the reply is
// lost (the commit call returns an error to babble).
func CommitFault(n, steps, node, k int) *Scenario {
	sc := Static(n, steps)
	sc.Cfg.CommitFault = map[int]map[int]bool{node: {k: true}}
	return sc
}
