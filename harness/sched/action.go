// Package sched defines the action alphabet, scenarios (seed schedules) and the
// exploration strategies S1 (exhaustive small scope), S2 (window) and S3
// (deviation bounded) over sim.Cluster.
package sched

import (
	"fmt"

	"github.com/mosaicnetworks/babble/src/node/state"
	"verif/harness/sim"
)

// Action is one step of a schedule.
type Action struct {
	K     string  `json:"k"`           // G P M T J L S H FF JA Start CS
	A     int     `json:"a"`           // acting node / joiner key
	B     int     `json:"b,omitempty"` // peer / via
	Lim   int     `json:"lim,omitempty"`
	Fault string  `json:"f,omitempty"` // reqS respS reqE respE
	Nest  *Action `json:"n,omitempty"` // nested action, run at lock-release point NestAt
	NAt   string  `json:"nat,omitempty"`
	Tx    string  `json:"tx,omitempty"` // explicit transaction content for T
}

func (a Action) String() string {
	s := fmt.Sprintf("%s(%d", a.K, a.A)
	switch a.K {
	case "G", "P", "J", "Start", "FF", "IX":
		s += fmt.Sprintf(",%d", a.B)
	}
	if a.Lim > 0 {
		s += fmt.Sprintf(",lim=%d", a.Lim)
	}
	if a.Fault != "" {
		s += "," + a.Fault
	}
	if a.Tx != "" {
		s += fmt.Sprintf(",%q", a.Tx)
	}
	if a.Nest != nil {
		s += fmt.Sprintf(",nest@%s=%s", a.NAt, a.Nest.String())
	}
	return s + ")"
}

func plan(c *sim.Cluster, a Action) *sim.Plan {
	if a.Lim == 0 && a.Fault == "" && a.Nest == nil {
		return nil
	}
	p := &sim.Plan{SyncLimit: a.Lim, DropReq: map[string]bool{}, DropResp: map[string]bool{}}
	switch a.Fault {
	case "reqS":
		p.DropReq["sync"] = true
	case "respS":
		p.DropResp["sync"] = true
	case "reqE":
		p.DropReq["eager"] = true
	case "respE":
		p.DropResp["eager"] = true
	}
	if a.Nest != nil {
		nested := *a.Nest
		done := false
		p.Hook = func(from, to int, kind, phase string) {
			// NAt: "sync.pre" (after knownEvents, before the request is served),
			// "sync.post" (before the response is inserted), "eager.pre" (between pull and push)
			if done || kind+"."+phase != a.NAt {
				return
			}
			done = true
			Do(c, nested)
		}
	}
	return p
}

// Do executes one action on the cluster; errors of the step are returned (and
// recorded in c.Errors) but are not failures by themselves.
func Do(c *sim.Cluster, a Action) error {
	switch a.K {
	case "G":
		old := -1
		if a.Lim > 0 && a.A < len(c.Nodes) && c.Nodes[a.A] != nil {
			// the push side truncates with the node's own configured limit
			old = c.Nodes[a.A].Conf.SyncLimit
			c.Nodes[a.A].Conf.SyncLimit = a.Lim
		}
		err := c.Gossip(a.A, a.B, plan(c, a))
		if old >= 0 {
			c.Nodes[a.A].Conf.SyncLimit = old
		}
		return err
	case "P":
		return c.Pull(a.A, a.B, plan(c, a))
	case "M":
		return c.Monologue(a.A)
	case "T":
		if a.Tx != "" {
			return c.SubmitRaw(a.A, []byte(a.Tx))
		}
		return c.Submit(a.A)
	case "TE": // empty transaction
		return c.SubmitRaw(a.A, []byte{})
	case "TB": // binary transaction (unique per node: 0x00 0xff prefix + counter)
		return c.SubmitRaw(a.A, append([]byte{0x00, 0xff, 0xfe}, c.NextTx(a.A)...))
	case "TD": // duplicate-content transaction
		return c.SubmitRaw(a.A, []byte("dup"))
	case "J":
		return c.RequestJoin(a.A, a.B)
	case "L":
		return c.RequestLeave(a.A)
	case "IX": // unknown-type internal transaction concerning key B, handed to validator A
		return c.RequestUnknown(a.B, a.A)
	case "S":
		return c.SetSilent(a.A, true)
	case "Q":
		// a read through the node's API: the validator set of a round that does not exist yet (last round + B);
		// reads must not change anything
		return c.Custom(fmt.Sprintf("Q(%d,+%d)", a.A, a.B), func() error {
			if a.A >= len(c.Nodes) || c.Nodes[a.A] == nil || c.Nodes[a.A].Down {
				return fmt.Errorf("not usable")
			}
			n := c.Nodes[a.A]
			for r := n.Store.LastRound() + 1; r <= n.Store.LastRound()+a.B; r++ {
				n.Node.GetValidatorSet(r)
			}
			n.Node.GetAllValidatorSets()
			n.Node.GetStats()
			return nil
		})
	case "SP":
		// validator A goes silent; B is a validator whose leave was requested earlier (see LeaveSilent)
		if why := outsideLeavePremise(c, a.A, a.B); why != "" {
			c.Outside = why
		}
		return c.SetSilent(a.A, true)
	case "H":
		return c.SetSilent(a.A, false)
	case "Start":
		return c.StartJoiner(a.A, a.B, a.Lim == 1)
	case "JA":
		// joiner learns the accepted round from the validator it asked (B)
		r, ok := c.AcceptedRound(a.A, a.B)
		if !ok {
			return fmt.Errorf("join of %d not yet accepted at %d", a.A, a.B)
		}
		return c.JoinAccepted(a.A, r)
	case "FF":
		if a.Lim > 0 {
			// only once some peer offers an anchor block with index >= Lim
			best := -1
			for _, n := range c.Nodes {
				if n == nil || n.Down || n.Silent || n.Idx == a.A {
					continue
				}
				if a.B > 0 && n.Idx != a.B-1 {
					continue // a named server: its own anchor is what counts
				}
				if ab := n.Node.VHashgraph().AnchorBlock; ab != nil && *ab > best {
					best = *ab
				}
			}
			if best < a.Lim {
				return fmt.Errorf("no anchor with index >= %d yet", a.Lim)
			}
		}
		if a.Fault == "reqF" {
			// nobody answers the fast-forward requests (peers not reachable yet)
			return c.FastForward(a.A, &sim.Plan{DropReq: map[string]bool{"ff": true}})
		}
		if a.B > 0 {
			return c.FastForward(a.A, &sim.Plan{FFFrom: a.B})
		}
		return c.FastForward(a.A, nil)
	case "Crash":
		return c.Crash(a.A)
	case "Restart": // Lim&1: fast-sync, Lim&2: bootstrap from its store
		return c.Restart(a.A, a.Lim&2 != 0, a.Lim&1 != 0)
	case "CS":
		return c.CheckSuspend(a.A)
	case "N":
		return nil
	}
	if f, ok := CustomActions[a.K]; ok {
		return f(c, a)
	}
	return fmt.Errorf("unknown action %v", a)
}

// AutoJoin performs the joiner-side acceptance for every started joiner whose
// request was accepted at the validator it asked and that is still Joining.
// (In the real system this is the JoinResponse arriving; it is not an explorer
// choice in the seeds – it happens as soon as it can.)
func AutoJoin(c *sim.Cluster, asked map[int]int) {
	for k, via := range asked {
		if k >= len(c.Nodes) || c.Nodes[k] == nil {
			continue
		}
		if c.Nodes[k].Node.GetState() != state.Joining {
			continue
		}
		if r, ok := c.AcceptedRound(k, via); ok {
			c.JoinAccepted(k, r)
		}
	}
}

// CustomActions lets checks add action kinds (executed as a cluster step).
var CustomActions = map[string]func(c *sim.Cluster, a Action) error{}

// outsideLeavePremise returns "" if every live validator other than `going` has, in its validator-set table, a set
// without validator `left` from some round E on, and a head event whose round is at least E.
func outsideLeavePremise(c *sim.Cluster, going, left int) string {
	for _, n := range c.Live() {
		if n.Idx == going || n.Idx == left {
			continue
		}
		all, err := n.Node.GetAllValidatorSets()
		if err != nil {
			return fmt.Sprintf("node %d: %v", n.Idx, err)
		}
		e := -1
		for r, ps := range all {
			has := false
			for _, p := range ps {
				if p.PubKeyString() == sim.PubHex(left) {
					has = true
				}
			}
			if !has && (e < 0 || r < e) {
				e = r
			}
		}
		if e < 0 {
			return fmt.Sprintf("node %d has not committed the leave yet", n.Idx)
		}
		head := n.Node.VCoreState().Head
		r, err := n.Node.VHashgraph().VRound(head)
		if err != nil {
			return fmt.Sprintf("node %d: round of its head: %v", n.Idx, err)
		}
		if r < e {
			return fmt.Sprintf("node %d's head is in round %d, the leave takes effect in round %d", n.Idx, r, e)
		}
	}
	return ""
}
