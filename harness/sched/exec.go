package sched

import (
	"fmt"
	"os"
	"strings"

	"github.com/mosaicnetworks/babble/src/node/state"
	"verif/harness/ev"
	"verif/harness/mon"
	"verif/harness/sim"
)

// Scenario is a closed system plus its seed schedule.
type Scenario struct {
	Name     string
	Cfg      sim.Config
	Setup    []Action    // executed before exploration starts (never deviated)
	Seed     []Action    // default schedule (S2/S3)
	Asked    map[int]int // joiner key → validator asked (for AutoJoin)
	Alphabet []Action    // S1 alphabet
	// CountsPremise: the scenario has a step that decides whether the rest is inside the liveness premise
	CountsPremise bool
}

// Exec is one execution in progress.
type Exec struct {
	Sc       *Scenario
	C        *sim.Cluster
	Mons     []mon.Monitor
	Viol     []ev.Violation
	Digests  map[uint64]bool
	Steps    int
	violKeys map[string]bool
	NoDigest bool
}

// NewExec builds a fresh cluster for sc and runs its setup.
func NewExec(sc *Scenario, mons []mon.Monitor) *Exec {
	x := &Exec{Sc: sc, C: sim.NewCluster(sc.Cfg), Mons: mons, Digests: map[uint64]bool{}, violKeys: map[string]bool{}}
	for _, a := range sc.Setup {
		x.Step(a)
	}
	return x
}

// Step runs one action, the automatic joiner acceptance, and all monitors.
func (x *Exec) Step(a Action) error {
	err := Do(x.C, a)
	if len(x.Sc.Asked) > 0 {
		AutoJoin(x.C, x.Sc.Asked)
	}
	x.Steps++
	x.check()
	return err
}

func (x *Exec) check() {
	if x.C.Panic != "" {
		if harnessPanic(x.C.Panic) {
			fmt.Fprintln(os.Stderr, "HARNESS-ERROR: panic in harness code:\n"+x.C.Panic)
			os.Exit(2)
		}
		k := "panic"
		if !x.violKeys[k] {
			x.violKeys[k] = true
			x.Viol = append(x.Viol, ev.Violation{Property: "*", Key: "panic-in-honest-run",
				What:   "panic inside babble code during an honest schedule: " + firstLine(x.C.Panic),
				Replay: map[string]interface{}{"trace": x.C.Trace, "panic": x.C.Panic}})
		}
		return
	}
	for _, m := range x.Mons {
		for _, v := range m.AfterStep(x.C) {
			k := v.Property + "/" + v.Key
			if x.violKeys[k] {
				continue
			}
			x.violKeys[k] = true
			v.Replay["scenario"] = x.Sc.Name
			x.Viol = append(x.Viol, v)
		}
	}
	if !x.NoDigest {
		x.Digests[x.C.Digest()] = true
	}
}

func firstLine(s string) string {
	for i, ch := range s {
		if ch == '\n' {
			return s[:i]
		}
	}
	return s
}

// Close releases the cluster.
func (x *Exec) Close() { x.C.Close() }

// Dead reports that the execution cannot continue (panic poisoned a node).
func (x *Exec) Dead() bool { return x.C.Panic != "" }

// ---------------------------------------------------------------------------
// fair suffix and the liveness oracle (C06)

// SuffixResult describes the fair all-pairs suffix.
type SuffixResult struct {
	Cycles    int
	Quiescent bool
	Reason    string
}

func babblers(c *sim.Cluster) []*sim.SimNode {
	res := []*sim.SimNode{}
	for _, n := range c.Live() {
		if n.Node.GetState() == state.Babbling {
			res = append(res, n)
		}
	}
	return res
}

// quiescent: all live babbling nodes idle, every accepted transaction and
// membership request delivered by all of them, chains equal.
func quiescent(c *sim.Cluster) (bool, string) {
	live := babblers(c)
	if len(live) == 0 {
		return true, ""
	}
	for _, n := range live {
		if n.Node.VCoreState().Busy {
			return false, fmt.Sprintf("node %d busy", n.Idx)
		}
	}
	// every transaction / request accepted by a live node is delivered by all live full-history nodes
	for _, n := range live {
		if !n.FullHistory() {
			continue
		}
		del := map[string]int{}
		itx := map[string]bool{}
		for _, cr := range n.App.Commits {
			for _, tx := range cr.Body.Transactions {
				del[string(tx)]++
			}
			for _, it := range cr.Body.InternalTransactions {
				itx[it.HashString()] = true
			}
		}
		for _, o := range live {
			want := map[string]int{}
			for _, tx := range o.Submits {
				want[string(tx)]++
			}
			for tx, k := range want {
				if del[tx] < k {
					return false, fmt.Sprintf("tx %q accepted by node %d not delivered at node %d", tx, o.Idx, n.Idx)
				}
			}
			for _, it := range o.Itxs {
				if !itx[it.HashString()] {
					return false, fmt.Sprintf("membership request accepted by node %d not delivered at node %d", o.Idx, n.Idx)
				}
			}
		}
	}
	// equal chain length among full-history live nodes
	last := -2
	for _, n := range live {
		if !n.FullHistory() {
			continue
		}
		l := n.Node.GetLastBlockIndex()
		if last == -2 {
			last = l
		} else if l != last {
			return false, fmt.Sprintf("node %d last block %d != %d", n.Idx, l, last)
		}
	}
	return true, ""
}

// FairSuffix runs all-pairs cycles among the live babbling nodes until
// quiescence or maxCycles.
func (x *Exec) FairSuffix(maxCycles int) SuffixResult {
	res := SuffixResult{}
	// payload-carrying events held by a live node when the suffix starts must get committed
	loaded := map[string]bool{}
	for _, n := range babblers(x.C) {
		for h := range n.Has {
			if r := x.C.Events[h]; r != nil && (len(r.Txs) > 0 || len(r.Itxs) > 0) {
				loaded[h] = true
			}
		}
	}
	allReceived := func() (bool, string) {
		for _, n := range babblers(x.C) {
			if !n.FullHistory() {
				continue
			}
			// (an event re-read from a database carries no round-received of its own: the rounds' lists decide)
			var received map[string]bool
			for h := range loaded {
				e, err := n.Store.GetEvent(h)
				if err != nil {
					return false, fmt.Sprintf("node %d does not hold loaded event %s", n.Idx, h[:10])
				}
				if e.VInfo().HasRoundReceived {
					continue
				}
				if received == nil {
					received = map[string]bool{}
					for r := 0; r <= n.Store.LastRound(); r++ {
						if ri, err := n.Store.GetRound(r); err == nil {
							for _, x := range ri.ReceivedEvents {
								received[x] = true
							}
						}
					}
				}
				if !received[h] {
					return false, fmt.Sprintf("loaded event %s not committed at node %d", h[:10], n.Idx)
				}
			}
		}
		return true, ""
	}
	for cyc := 0; cyc <= maxCycles; cyc++ {
		if x.Dead() {
			res.Reason = "execution dead"
			return res
		}
		if ok, why := quiescent(x.C); ok {
			if ok2, why2 := allReceived(); ok2 {
				res.Quiescent = true
				res.Cycles = cyc
				return res
			} else {
				res.Reason = why2
			}
		} else {
			res.Reason = why
		}
		if cyc == maxCycles {
			break
		}
		live := babblers(x.C)
		if len(live) == 1 {
			x.Step(Action{K: "M", A: live[0].Idx})
		}
	cycle:
		for _, a := range live {
			for _, b := range live {
				if a.Idx != b.Idx {
					x.Step(Action{K: "G", A: a.Idx, B: b.Idx})
					if x.Dead() {
						// (a panic inside a node's critical section leaves its lock held: no further step)
						break cycle
					}
				}
			}
		}
		res.Cycles = cyc + 1
	}
	return res
}

// harnessPanic: the frame that panicked is harness code, not babble code.
func harnessPanic(stack string) bool {
	lines := strings.Split(stack, "\n")
	// the original panic is the last "panic(" entry of the trace (wrappers that recover and panic again, e.g. the
	// delivery of an RPC, add further entries above it)
	lastPanic := -1
	for i, l := range lines {
		if strings.HasPrefix(l, "panic(") {
			lastPanic = i
		}
	}
	after := false
	for i, l := range lines {
		if i == lastPanic {
			after = true
			continue
		}
		if !after || !strings.HasPrefix(l, "\t") {
			continue
		}
		if strings.Contains(l, "/runtime/") {
			continue
		}
		return strings.Contains(l, "/verif/harness/")
	}
	return false
}
