package sched

import (
	"encoding/json"
	"fmt"
	"strconv"
	"strings"

	"verif/harness/ev"
	"verif/harness/explore"
	"verif/harness/mon"
	"verif/harness/sim"
)

// Dev is one deviation from the seed: at position Pos run Alt instead of (Ins=false)
// or in addition to and before (Ins=true) the seed's action.
type Dev struct {
	Pos int    `json:"pos"`
	Alt Action `json:"alt"`
	Ins bool   `json:"ins,omitempty"`
}

// Item is one unit of work for a worker process.
type Item struct {
	Scenario string   `json:"sc"`
	Mode     string   `json:"mode"` // s1 | s3
	Prefix   []int    `json:"prefix,omitempty"`
	Depth    int      `json:"depth,omitempty"`
	Devs     []Dev    `json:"devs,omitempty"`
	Mons     []string `json:"mons"`
	Suffix   int      `json:"suffix,omitempty"` // fair-suffix cycle bound (0: no suffix)
	Cut      int      `json:"cut,omitempty"`    // s3: stop the seed after this many steps (0: all)
}

// Result is what a worker returns for an item.
type Result struct {
	Execs         int            `json:"execs"`
	Steps         int            `json:"steps"`
	Pruned        int            `json:"pruned"`
	Digests       []uint64       `json:"dg"`
	FinalNT       []uint64       `json:"fnt"` // final digests of non-trivial executions
	Viol          []ev.Violation `json:"viol,omitempty"`
	MaxCycles     int            `json:"maxcyc"`
	NotQuiescent  int            `json:"nq"`
	Sample        []string       `json:"sample,omitempty"`
	Counters      map[string]int `json:"ctr"`
	DistinctChain []string       `json:"chains,omitempty"` // distinct delivered-chain digests seen
}

// ScenarioByName resolves "static:3:60", "silent:4:60:3:10", "late:40",
// "join:3:5:90", "leave:4:6:90", "s1:2" …
func ScenarioByName(name string) *Scenario {
	p := strings.Split(name, ":")
	arg := func(i int) int {
		if i >= len(p) {
			return 0
		}
		v, _ := strconv.Atoi(p[i])
		return v
	}
	var sc *Scenario
	switch p[0] {
	case "static":
		sc = Static(arg(1), arg(2))
	case "silent":
		sc = StaticSilent(arg(1), arg(2), arg(3), arg(4))
	case "late":
		sc = LateWitness(arg(1))
	case "unheard":
		sc = Unheard(arg(1), arg(2), arg(3), arg(4), arg(5), arg(6))
	case "staticr":
		sc = StaticR(arg(1), arg(2))
	case "later":
		sc = LateWitnessR(arg(1), arg(2))
	case "returning":
		sc = Returning(arg(1), arg(2), arg(3))
	case "commitfault":
		sc = CommitFault(arg(1), arg(2), arg(3), arg(4))
	case "unknownitx":
		sc = UnknownItx(arg(1), arg(2), arg(3))
	case "irregular":
		sc = Irregular(arg(1), arg(2), arg(3), arg(4))
	case "slow":
		sc = Slow(arg(1), arg(2), arg(3), arg(4))
	case "leavesilent":
		sc = LeaveSilent(arg(1), arg(2), arg(3))
	case "dups":
		sc = Dups(arg(1), arg(2))
	case "bigtx":
		sc = BigTx(arg(1), arg(2), arg(3))
	case "burst":
		sc = Burst(arg(1), arg(2), arg(3), arg(4))
	case "rejoin":
		sc = Rejoin(arg(1), arg(2), arg(3), arg(4))
	case "refused":
		sc = Refused(arg(1), arg(2), arg(3))
	case "partition":
		sc = Partition(arg(1), arg(2), arg(3), arg(4), arg(5))
	case "laggards":
		sc = Laggards(arg(1), arg(2), arg(3), arg(4), arg(5))
	case "join":
		sc = Join(arg(1), arg(2), arg(3))
	case "leave":
		sc = Leave(arg(1), arg(2), arg(3))
	case "twoleaves":
		sc = TwoLeaves(arg(1), arg(2), arg(3))
	case "joinleave":
		sc = JoinLeave(arg(1), arg(2), arg(3))
	case "s1":
		sc = S1Scenario(arg(1), arg(2))
	case "win":
		// "win:<nodes>:<leave or -1>:<base…>": base scenario with the S2 window alphabet over nodes 0..n-1
		base := ScenarioByName(strings.Join(p[3:], ":"))
		sc = base
		sc.Alphabet = WindowAlphabet(arg(1), arg(2))
	default:
		if f, ok := extraScenarios[p[0]]; ok {
			sc = f(p)
		}
	}
	if sc == nil {
		panic("unknown scenario " + name)
	}
	sc.Name = name
	return sc
}

var extraScenarios = map[string]func(p []string) *Scenario{}

// RegisterScenario adds a named scenario family.
func RegisterScenario(prefix string, f func(p []string) *Scenario) { extraScenarios[prefix] = f }

// S1Scenario: n nodes, alphabet of all ordered gossip pairs plus a submission
// per node (variant 1 adds truncated and faulty exchanges).
func S1Scenario(n, variant int) *Scenario {
	sc := &Scenario{Cfg: sim.Config{N: n}}
	if n == 1 {
		sc.Alphabet = []Action{{K: "M", A: 0}, {K: "T", A: 0}}
		return sc
	}
	for i := 0; i < n; i++ {
		for j := 0; j < n; j++ {
			if i != j {
				sc.Alphabet = append(sc.Alphabet, Action{K: "G", A: i, B: j})
			}
		}
	}
	for i := 0; i < n; i++ {
		sc.Alphabet = append(sc.Alphabet, Action{K: "T", A: i})
	}
	if variant >= 1 {
		for i := 0; i < n; i++ {
			for j := 0; j < n; j++ {
				if i != j {
					sc.Alphabet = append(sc.Alphabet, Action{K: "G", A: i, B: j, Lim: 1})
					sc.Alphabet = append(sc.Alphabet, Action{K: "G", A: i, B: j, Fault: "respE"})
				}
			}
		}
	}
	return sc
}

// MonitorFactory builds the monitors named in an item; set by the checks.
var MonitorFactory func(names []string, st *mon.Stats) []mon.Monitor

// ExecHook, if set, is called at the end of each execution (before Close) so
// a check can harvest extra counters.
var ExecHook func(x *Exec, res *Result)

func init() {
	explore.Register("cluster", func(spec json.RawMessage) (json.RawMessage, error) {
		var it Item
		if err := json.Unmarshal(spec, &it); err != nil {
			return nil, err
		}
		res := RunItem(it)
		return json.Marshal(res)
	})
}

// RunItem executes one work item in this process.
func RunItem(it Item) *Result {
	res := &Result{Counters: map[string]int{}}
	sc := ScenarioByName(it.Scenario)
	dg := map[uint64]bool{}
	fnt := map[uint64]bool{}
	chains := map[string]bool{}
	violSeen := map[string]bool{}
	finish := func(x *Exec, st *mon.Stats) {
		res.Execs++
		res.Steps += x.Steps
		for d := range x.Digests {
			dg[d] = true
		}
		if st.CommonBlocksUnequalViews > 0 {
			res.Counters["nontrivial_execs"]++
			if !x.Dead() {
				fnt[x.C.Digest()] = true
			}
		}
		res.Counters["blocks_checked"] += st.BlocksChecked
		res.Counters["reads_checked"] += st.ReadsChecked
		res.Counters["common_blocks_unequal_views"] += st.CommonBlocksUnequalViews
		maxb := -1
		for _, n := range x.C.Nodes {
			if n != nil && len(n.App.Commits) > maxb {
				maxb = len(n.App.Commits)
			}
		}
		if maxb > 0 {
			res.Counters["execs_with_blocks"]++
		}
		res.Counters["blocks_delivered"] += maxb
		if x.Dead() {
			res.Counters["dead_execs"]++
		} else {
			chains[chainDigest(x.C)] = true
		}
		for _, e := range x.C.Errors {
			if strings.Contains(e, "C17-VIOLATION") {
				x.Viol = append(x.Viol, ev.Violation{Property: "C17", Key: "did-not-self-suspend", What: e, Replay: map[string]interface{}{"trace": x.C.Trace, "scenario": it.Scenario}})
			}
			if strings.Contains(e, "C17-SUSPENDED") {
				res.Counters["c17_suspensions"]++
			}
		}
		for _, v := range x.Viol {
			k := v.Property + "/" + v.Key
			if !violSeen[k] {
				violSeen[k] = true
				res.Viol = append(res.Viol, v)
			}
		}
		for _, m := range x.Mons {
			if cm, ok := m.(mon.Counted); ok {
				for k, v := range cm.Counters() {
					res.Counters[k] += v
				}
			}
		}
		if ExecHook != nil {
			ExecHook(x, res)
		}
		if len(res.Sample) == 0 {
			res.Sample = append([]string{}, x.C.Trace...)
			if len(res.Sample) > 40 {
				res.Sample = append(res.Sample[:40], fmt.Sprintf("… %d more steps", len(x.C.Trace)-40))
			}
		}
		x.Close()
	}
	suffix := func(x *Exec) {
		sr := x.FairSuffix(it.Suffix)
		if sr.Cycles > res.MaxCycles {
			res.MaxCycles = sr.Cycles
		}
		res.Counters["suffixes_run"]++
		if !sr.Quiescent && equivocated(x.C) {
			// "as long as no validator equivocated": a validator that was restarted without (all of) its own
			// events may unknowingly reuse a height; what follows is outside the liveness property
			res.Counters["suffixes_after_an_equivocation"]++
			return
		}
		if !sr.Quiescent && x.C.Outside != "" {
			res.Counters["suffixes_outside_the_liveness_premise"]++
			return
		}
		if x.C.Outside == "" && x.Sc.CountsPremise {
			res.Counters["suffixes_inside_the_liveness_premise"]++
		}
		if !sr.Quiescent {
			res.NotQuiescent++
			x.Viol = append(x.Viol, ev.Violation{Property: "C06", Key: "not-quiescent",
				What:   fmt.Sprintf("after %d fair all-pairs cycles the live nodes are not quiescent: %s", sr.Cycles, sr.Reason),
				Replay: map[string]interface{}{"trace": x.C.Trace, "scenario": it.Scenario}})
		}
	}
	switch it.Mode {
	case "s1":
		seen := map[uint64]int{}
		alpha := sc.Alphabet
		var dfs func(prefix []int)
		dfs = func(prefix []int) {
			st := &mon.Stats{}
			x := NewExec(sc, MonitorFactory(it.Mons, st))
			for _, k := range prefix {
				x.Step(alpha[k])
			}
			path := append([]int{}, prefix...)
			for len(path) < it.Depth && !x.Dead() {
				d := x.C.Digest()
				rem := it.Depth - len(path)
				if seen[d] >= rem {
					res.Pruned++
					break
				}
				seen[d] = rem
				path = append(path, 0)
				x.Step(alpha[0])
			}
			if it.Suffix > 0 && !x.Dead() {
				suffix(x)
			}
			finish(x, st)
			for i := len(prefix); i < len(path); i++ {
				for alt := 1; alt < len(alpha); alt++ {
					dfs(append(append([]int{}, path[:i]...), alt))
				}
			}
		}
		dfs(it.Prefix)
	case "s3":
		st := &mon.Stats{}
		x := NewExec(sc, MonitorFactory(it.Mons, st))
		devAt := map[int][]Dev{}
		for _, d := range it.Devs {
			devAt[d.Pos] = append(devAt[d.Pos], d)
		}
		for pos, a := range sc.Seed {
			if it.Cut > 0 && pos >= it.Cut {
				break
			}
			if x.Dead() {
				break
			}
			replaced := false
			for _, d := range devAt[pos] {
				x.Step(d.Alt)
				if !d.Ins {
					replaced = true
				}
			}
			if !replaced {
				x.Step(a)
			}
		}
		if it.Suffix > 0 && !x.Dead() {
			suffix(x)
		}
		finish(x, st)
	case "s2":
		// seed prefix [0,Cut) + every action sequence of length Depth over the
		// scenario's window alphabet (below the given Prefix) + fair suffix
		alpha := sc.Alphabet
		var rec func(seq []int)
		rec = func(seq []int) {
			if len(seq) == it.Depth {
				st := &mon.Stats{}
				x := NewExec(sc, MonitorFactory(it.Mons, st))
				for pos, a := range sc.Seed {
					if pos >= it.Cut || x.Dead() {
						break
					}
					x.Step(a)
				}
				for _, k := range seq {
					if x.Dead() {
						break
					}
					x.Step(alpha[k])
				}
				if it.Suffix > 0 && !x.Dead() {
					suffix(x)
				}
				finish(x, st)
				return
			}
			for k := range alpha {
				rec(append(seq, k))
			}
		}
		rec(append([]int{}, it.Prefix...))
	default:
		panic("unknown mode " + it.Mode)
	}
	for d := range dg {
		res.Digests = append(res.Digests, d)
	}
	for d := range fnt {
		res.FinalNT = append(res.FinalNT, d)
	}
	for c := range chains {
		res.DistinctChain = append(res.DistinctChain, c)
	}
	return res
}

func chainDigest(c *sim.Cluster) string {
	best := ""
	n := -1
	for _, nd := range c.Nodes {
		if nd == nil || len(nd.App.Commits) <= n {
			continue
		}
		n = len(nd.App.Commits)
		s := ""
		for _, cr := range nd.App.Commits {
			s += fmt.Sprintf("%x", cr.StateHash[:4])
		}
		best = s
	}
	if len(best) > 48 {
		best = best[len(best)-48:]
	}
	return fmt.Sprintf("%d:%s", n, best)
}

// WindowAlphabet: every ordered gossip pair, half of the pairs truncated to one
// event, a submission per node, optionally a leave request.
func WindowAlphabet(n, leave int) []Action {
	var a []Action
	for i := 0; i < n; i++ {
		for j := 0; j < n; j++ {
			if i != j {
				a = append(a, Action{K: "G", A: i, B: j})
			}
		}
	}
	for i := 0; i < n; i++ {
		for j := 0; j < n; j++ {
			if i != j && (i+j)%2 == 1 {
				a = append(a, Action{K: "G", A: i, B: j, Lim: 1})
			}
		}
		a = append(a, Action{K: "T", A: i})
	}
	if leave >= 0 {
		a = append(a, Action{K: "L", A: leave})
	}
	return a
}

// equivocated: the cluster's event log holds two events of one creator at one height.
func equivocated(c *sim.Cluster) bool {
	seen := map[string]string{}
	for hx, r := range c.Events {
		k := fmt.Sprintf("%d/%d", r.CreatorIdx, r.Index)
		if o, dup := seen[k]; dup && o != hx {
			return true
		}
		seen[k] = hx
	}
	return false
}
