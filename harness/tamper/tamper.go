// Package tamper enumerates single-field substitutions of a message by
// reflection over its exported structure (the hostile value grammar of C08 /
// C12) and applies them to deep copies.
package tamper

import (
	"encoding/json"
	"fmt"
	"math"
	"reflect"
	"sort"
	"strings"
)

type step struct {
	kind  byte // 'f' field, 'i' slice index, 'p' pointer deref, 'm' map value (pointer-valued maps only)
	idx   int
	mkey  reflect.Value
	fname string
}

// Mut is one substitution.
type Mut struct {
	Path  string
	Value string
	path  []step
	apply func(v reflect.Value) bool
}

func (m Mut) String() string { return m.Path + " := " + m.Value }

// Copy deep-copies msg (a pointer to a struct) the way the wire does: JSON.
func Copy(msg interface{}) interface{} {
	raw, err := json.Marshal(msg)
	if err != nil {
		panic(fmt.Sprintf("tamper: marshal: %v", err))
	}
	out := reflect.New(reflect.TypeOf(msg).Elem())
	if err := json.Unmarshal(raw, out.Interface()); err != nil {
		panic(fmt.Sprintf("tamper: unmarshal: %v", err))
	}
	return out.Interface()
}

// Apply returns a mutated deep copy of msg (nil if the path does not exist in the copy).
func Apply(msg interface{}, m Mut) interface{} {
	cp := Copy(msg)
	v := reflect.ValueOf(cp).Elem()
	for _, s := range m.path {
		switch s.kind {
		case 'f':
			v = v.Field(s.idx)
		case 'i':
			if v.Kind() != reflect.Slice || s.idx >= v.Len() {
				return nil
			}
			v = v.Index(s.idx)
		case 'p':
			if v.IsNil() {
				return nil
			}
			v = v.Elem()
		case 'm':
			mv := v.MapIndex(s.mkey)
			if !mv.IsValid() {
				return nil
			}
			v = mv // pointer values: Elem() is addressable
		}
	}
	if !m.apply(v) {
		return nil
	}
	return cp
}

var hostileStrings = []string{"", "0", "0X", "0Xzz", "|", "a|", "1|", "zz|1", strings.Repeat("A", 65536)}

// Enumerate lists all single substitutions of msg (pointer to struct).
// extraBytes are additional []byte candidates (e.g. a valid non-member key).
func Enumerate(msg interface{}, extraBytes [][]byte) []Mut {
	var out []Mut
	var walk func(v reflect.Value, path []step, name string, settable bool)
	add := func(path []step, name, val string, f func(v reflect.Value) bool) {
		out = append(out, Mut{Path: name, Value: val, path: append([]step{}, path...), apply: f})
	}
	walk = func(v reflect.Value, path []step, name string, settable bool) {
		t := v.Type()
		switch v.Kind() {
		case reflect.Struct:
			for i := 0; i < v.NumField(); i++ {
				if t.Field(i).PkgPath != "" {
					continue // unexported: not on the wire
				}
				walk(v.Field(i), append(path, step{kind: 'f', idx: i}), name+"."+t.Field(i).Name, settable)
			}
		case reflect.Ptr:
			if settable {
				add(path, name, "nil", func(x reflect.Value) bool { x.Set(reflect.Zero(x.Type())); return true })
			}
			if !v.IsNil() {
				walk(v.Elem(), append(path, step{kind: 'p'}), name, true)
			}
		case reflect.String:
			if !settable {
				return
			}
			for _, s := range hostileStrings {
				ss := s
				d := ss
				if len(d) > 20 {
					d = fmt.Sprintf("%d x 'A'", len(d))
				}
				add(path, name, fmt.Sprintf("%q", d), func(x reflect.Value) bool { x.SetString(ss); return true })
			}
			if s := v.String(); len(s) > 4 {
				low := strings.ToLower(s)
				if low != s {
					add(path, name, "lower-cased", func(x reflect.Value) bool { x.SetString(strings.ToLower(x.String())); return true })
				}
			}
		case reflect.Int, reflect.Int64, reflect.Int32:
			if !settable {
				return
			}
			for _, k := range []int64{-1, 0, math.MinInt64, math.MaxInt64, v.Int() + 1} {
				kk := k
				if v.Kind() == reflect.Int32 && (kk > math.MaxInt32 || kk < math.MinInt32) {
					continue
				}
				add(path, name, fmt.Sprint(kk), func(x reflect.Value) bool {
					if x.Int() == kk {
						return false
					}
					x.SetInt(kk)
					return true
				})
			}
		case reflect.Uint32, reflect.Uint8, reflect.Uint, reflect.Uint64:
			if !settable {
				return
			}
			for _, k := range []uint64{0, 7, 12345, math.MaxUint32} {
				kk := k
				if v.Kind() == reflect.Uint8 && kk > 255 {
					continue
				}
				add(path, name, fmt.Sprint(kk), func(x reflect.Value) bool {
					if x.Uint() == kk {
						return false
					}
					x.SetUint(kk)
					return true
				})
			}
		case reflect.Bool:
			if settable {
				add(path, name, "flipped", func(x reflect.Value) bool { x.SetBool(!x.Bool()); return true })
			}
		case reflect.Slice:
			if !settable {
				return
			}
			et := t.Elem()
			add(path, name, "nil", func(x reflect.Value) bool { x.Set(reflect.Zero(x.Type())); return true })
			add(path, name, "empty", func(x reflect.Value) bool { x.Set(reflect.MakeSlice(x.Type(), 0, 0)); return true })
			if et.Kind() == reflect.Uint8 {
				cands := [][]byte{{1}, make([]byte, 65)}
				cands = append(cands, extraBytes...)
				for _, b := range cands {
					bb := b
					add(path, name, fmt.Sprintf("%d bytes %x…", len(bb), bb[:min(4, len(bb))]), func(x reflect.Value) bool { x.SetBytes(append([]byte{}, bb...)); return true })
				}
				return
			}
			add(path, name, "one zero element", func(x reflect.Value) bool {
				s := reflect.MakeSlice(x.Type(), 1, 1)
				x.Set(s)
				return true
			})
			add(path, name, "zero element appended", func(x reflect.Value) bool {
				x.Set(reflect.Append(x, reflect.Zero(x.Type().Elem())))
				return true
			})
			if v.Len() > 0 {
				add(path, name, "first element dropped", func(x reflect.Value) bool {
					if x.Len() == 0 {
						return false
					}
					x.Set(x.Slice(1, x.Len()))
					return true
				})
				add(path, name, "last element duplicated", func(x reflect.Value) bool {
					if x.Len() == 0 {
						return false
					}
					x.Set(reflect.Append(x, x.Index(x.Len()-1)))
					return true
				})
				if v.Len() > 1 {
					add(path, name, "first two swapped", func(x reflect.Value) bool {
						if x.Len() < 2 {
							return false
						}
						a, b := reflect.ValueOf(x.Index(0).Interface()), reflect.ValueOf(x.Index(1).Interface())
						x.Index(0).Set(b)
						x.Index(1).Set(a)
						return true
					})
				}
				walk(v.Index(0), append(path, step{kind: 'i', idx: 0}), name+"[0]", true)
				if v.Len() > 1 {
					walk(v.Index(v.Len()-1), append(path, step{kind: 'i', idx: v.Len() - 1}), fmt.Sprintf("%s[%d]", name, v.Len()-1), true)
				}
			}
		case reflect.Map:
			if !settable {
				return
			}
			add(path, name, "nil", func(x reflect.Value) bool { x.Set(reflect.Zero(x.Type())); return true })
			add(path, name, "empty", func(x reflect.Value) bool { x.Set(reflect.MakeMap(x.Type())); return true })
			kt, vt := t.Key(), t.Elem()
			// unknown key with a zero / hostile value
			var newKeys []reflect.Value
			switch kt.Kind() {
			case reflect.String:
				for _, s := range []string{"", "0X", "zz", "0X04" + strings.Repeat("AB", 64)} {
					newKeys = append(newKeys, reflect.ValueOf(s).Convert(kt))
				}
			case reflect.Uint32:
				newKeys = append(newKeys, reflect.ValueOf(uint32(12345)).Convert(kt))
			case reflect.Int:
				newKeys = append(newKeys, reflect.ValueOf(-1).Convert(kt), reflect.ValueOf(math.MaxInt32).Convert(kt))
			}
			for _, nk := range newKeys {
				k := nk
				add(path, name, fmt.Sprintf("entry added under key %v (zero value)", trunc(fmt.Sprint(k.Interface()))), func(x reflect.Value) bool {
					if x.IsNil() {
						x.Set(reflect.MakeMap(x.Type()))
					}
					x.SetMapIndex(k, reflect.Zero(x.Type().Elem()))
					return true
				})
			}
			keys := v.MapKeys()
			sort.Slice(keys, func(i, j int) bool { return fmt.Sprint(keys[i].Interface()) < fmt.Sprint(keys[j].Interface()) })
			if len(keys) == 0 {
				return
			}
			k0 := keys[0]
			add(path, name, "first entry removed", func(x reflect.Value) bool { x.SetMapIndex(k0, reflect.Value{}); return true })
			// hostile values for scalar-valued maps
			switch vt.Kind() {
			case reflect.Int:
				for _, val := range []int{-5, math.MaxInt64, math.MinInt64} {
					vv := val
					add(path, name, fmt.Sprintf("value of first entry = %d", vv), func(x reflect.Value) bool {
						x.SetMapIndex(k0, reflect.ValueOf(vv).Convert(x.Type().Elem()))
						return true
					})
				}
			case reflect.String:
				for _, s := range hostileStrings[:8] {
					ss := s
					add(path, name, fmt.Sprintf("value of first entry = %q", ss), func(x reflect.Value) bool {
						x.SetMapIndex(k0, reflect.ValueOf(ss).Convert(x.Type().Elem()))
						return true
					})
				}
				if kt.Kind() == reflect.String {
					// the same entry again under re-encoded keys
					for _, f := range []func(string) string{strings.ToLower, func(s string) string {
						if len(s) < 4 {
							return s
						}
						return s[:2] + strings.ToLower(s[2:3]) + s[3:]
					}} {
						ff := f
						add(path, name, "first entry duplicated under a re-encoded key", func(x reflect.Value) bool {
							nk := ff(k0.String())
							if nk == k0.String() {
								return false
							}
							x.SetMapIndex(reflect.ValueOf(nk).Convert(x.Type().Key()), x.MapIndex(k0))
							return true
						})
					}
					add(path, name, "value of first entry moved under the second key", func(x reflect.Value) bool {
						ks := x.MapKeys()
						if len(ks) < 2 {
							return false
						}
						sort.Slice(ks, func(i, j int) bool { return ks[i].String() < ks[j].String() })
						x.SetMapIndex(ks[1], x.MapIndex(ks[0]))
						return true
					})
				}
			case reflect.Ptr:
				add(path, name, "value of first entry = nil", func(x reflect.Value) bool { x.SetMapIndex(k0, reflect.Zero(x.Type().Elem())); return true })
				mv := v.MapIndex(k0)
				if !mv.IsNil() {
					walk(mv.Elem(), append(path, step{kind: 'm', mkey: k0}, step{kind: 'p'}), fmt.Sprintf("%s[%v]", name, trunc(fmt.Sprint(k0.Interface()))), true)
				}
			case reflect.Slice:
				add(path, name, "value of first entry = nil", func(x reflect.Value) bool { x.SetMapIndex(k0, reflect.Zero(x.Type().Elem())); return true })
				add(path, name, "value of first entry = one nil/zero element", func(x reflect.Value) bool {
					x.SetMapIndex(k0, reflect.MakeSlice(x.Type().Elem(), 1, 1))
					return true
				})
				add(path, name, "value of first entry: last element dropped", func(x reflect.Value) bool {
					s := x.MapIndex(k0)
					if s.Len() == 0 {
						return false
					}
					x.SetMapIndex(k0, s.Slice(0, s.Len()-1))
					return true
				})
			}
		}
	}
	walk(reflect.ValueOf(msg).Elem(), nil, reflect.TypeOf(msg).Elem().Name(), true)
	return out
}

func trunc(s string) string {
	if len(s) > 14 {
		return s[:14] + "…"
	}
	return s
}

func min(a, b int) int {
	if a < b {
		return a
	}
	return b
}
