// Package ev writes evidence files, replay files and applies the
// known-findings filter.
package ev

import (
	"encoding/json"
	"fmt"
	"os"
	"path/filepath"
	"sort"
	"strconv"
	"strings"
	"time"
)

// Dir is /verif.
func Dir() string {
	if d := os.Getenv("VERIF_DIR"); d != "" {
		return d
	}
	return "/verif"
}

func Tier() string {
	if t := os.Getenv("VERIF_TIER"); t == "thorough" {
		return "thorough"
	}
	return "quick"
}

func Seed() int {
	s, _ := strconv.Atoi(os.Getenv("VERIF_SEED"))
	return s
}

// Violation is one counterexample.
type Violation struct {
	Property string                 `json:"property"`
	Key      string                 `json:"key"`  // stable identifier of what fails (matched against known findings)
	What     string                 `json:"what"` // human readable
	Replay   map[string]interface{} `json:"replay"`
}

// Finding is an entry of known_findings.json.
type Finding struct {
	Property string `json:"property"`
	Status   string `json:"status"` // "known" | "fixed"
	Key      string `json:"key"`    // exact key or prefix ending in '*'
	What     string `json:"what"`
	Commit   string `json:"commit,omitempty"`
}

type findingsFile struct {
	Findings []Finding `json:"findings"`
}

func loadFindings() []Finding {
	raw, err := os.ReadFile(filepath.Join(Dir(), "known_findings.json"))
	if err != nil {
		return nil
	}
	var f findingsFile
	if err := json.Unmarshal(raw, &f); err != nil {
		fmt.Fprintf(os.Stderr, "known_findings.json unreadable: %v\n", err)
		os.Exit(2)
	}
	return f.Findings
}

func matches(f Finding, v Violation) bool {
	if f.Status != "known" || f.Property != v.Property {
		return false
	}
	if strings.HasSuffix(f.Key, "*") {
		return strings.HasPrefix(v.Key, strings.TrimSuffix(f.Key, "*"))
	}
	return f.Key == v.Key
}

// Report is what a check hands back.
type Report struct {
	Property    string
	Level       string // model_checking | exploration | fault_enumeration
	Coverage    map[string]interface{}
	Assumptions []string
	Violations  []Violation
	Start       time.Time
}

func NewReport(prop, level string) *Report {
	return &Report{Property: prop, Level: level, Coverage: map[string]interface{}{}, Start: time.Now()}
}

// Finish writes the evidence file, prints VIOLATION / KNOWN-FINDING lines and
// returns the process exit code.
func (r *Report) Finish() int {
	findings := loadFindings()
	unknown := []Violation{}
	knownSeen := map[string]Finding{}
	knownCount := map[string]int{}
	for _, v := range r.Violations {
		hit := false
		for _, f := range findings {
			if matches(f, v) {
				knownSeen[f.Key] = f
				knownCount[f.Key]++
				hit = true
				break
			}
		}
		if !hit {
			unknown = append(unknown, v)
		}
	}
	keys := []string{}
	for k := range knownSeen {
		keys = append(keys, k)
	}
	sort.Strings(keys)
	for _, k := range keys {
		f := knownSeen[k]
		fmt.Printf("KNOWN-FINDING: property=%s key=%s (%d occurrences this run) %s\n", f.Property, f.Key, knownCount[k], f.What)
	}
	// distinct unknown keys
	seen := map[string]bool{}
	code := 0
	os.MkdirAll(filepath.Join(Dir(), "replays"), 0o755)
	n := 0
	for _, v := range unknown {
		if seen[v.Key] {
			continue
		}
		seen[v.Key] = true
		n++
		if n > 10 {
			continue
		}
		name := fmt.Sprintf("%s-%s.json", r.Property, sanitize(v.Key))
		path := filepath.Join(Dir(), "replays", name)
		raw, _ := json.MarshalIndent(v, "", " ")
		os.WriteFile(path, raw, 0o644)
		fmt.Printf("VIOLATION property=%s replay=%s\n", r.Property, path)
		fmt.Printf("  %s\n", v.What)
		code = 1
	}
	r.Coverage["known_finding_occurrences"] = len(r.Violations) - len(unknown)
	if r.Assumptions == nil {
		r.Assumptions = []string{}
	}
	evd := map[string]interface{}{
		"property_id": r.Property,
		"tier":        Tier(),
		"seed":        Seed(),
		"level":       r.Level,
		"coverage":    r.Coverage,
		"assumptions": r.Assumptions,
		"wall_s":      time.Since(r.Start).Seconds(),
		"violations":  len(seen),
	}
	raw, _ := json.MarshalIndent(evd, "", " ")
	// VERIF_EVIDENCE_DIR: runs against deliberately changed trees (tools/seedcheck.sh, tools/seedall.sh) write their
	// evidence elsewhere, so that the committed evidence always comes from the unchanged tree
	evdir := filepath.Join(Dir(), "evidence")
	if d := os.Getenv("VERIF_EVIDENCE_DIR"); d != "" {
		evdir = d
	}
	os.MkdirAll(evdir, 0o755)
	if err := os.WriteFile(filepath.Join(evdir, r.Property+".json"), raw, 0o644); err != nil {
		fmt.Fprintf(os.Stderr, "cannot write evidence: %v\n", err)
		return 2
	}
	return code
}

func sanitize(s string) string {
	b := []byte(s)
	for i, ch := range b {
		ok := ch >= 'a' && ch <= 'z' || ch >= 'A' && ch <= 'Z' || ch >= '0' && ch <= '9' || ch == '-' || ch == '_' || ch == '.'
		if !ok {
			b[i] = '_'
		}
	}
	if len(b) > 80 {
		b = b[:80]
	}
	return string(b)
}

// Fail ends the process with a harness error (exit 2).
func Fail(format string, a ...interface{}) {
	fmt.Fprintf(os.Stderr, "HARNESS-ERROR: "+format+"\n", a...)
	os.Exit(2)
}
