// Package dag is engine E2: it feeds one real hashgraph (the one inside a real
// Node, so that validator-set changes are applied by the real commit path)
// with harness-held events under chosen insertion orders, batchings, stores
// and cache sizes, and extracts the consensus outcome for comparison.
package dag

import (
	"crypto/sha256"
	"encoding/hex"
	"encoding/json"
	"fmt"
	"io"
	"sort"

	hg "github.com/mosaicnetworks/babble/src/hashgraph"
	"github.com/mosaicnetworks/babble/src/peers"
	"github.com/sirupsen/logrus"
	"verif/harness/sim"
)

// Ev is a harness-held event (immutable).
type Ev struct {
	Body       hg.EventBody
	Sig        string
	Hex        string
	CreatorIdx int
	Self       string
	Other      string
}

// Fresh builds a new hashgraph Event object for insertion.
func (e *Ev) Fresh() *hg.Event {
	b := e.Body
	b.Parents = append([]string{}, e.Body.Parents...)
	return &hg.Event{Body: b, Signature: e.Sig}
}

// FromEvent captures an event.
func FromEvent(ev *hg.Event, idx int) Ev {
	return Ev{Body: ev.Body, Sig: ev.Signature, Hex: ev.Hex(), CreatorIdx: idx, Self: ev.SelfParent(), Other: ev.OtherParent()}
}

// Harvest returns all events of a cluster in a topological order (parents
// first; ties by discovery order), taken from the given node's store where
// possible.
func Harvest(c *sim.Cluster) []Ev {
	var all []Ev
	pos := map[string]int{}
	for _, hx := range c.EvOrder {
		rec := c.Events[hx]
		var got *hg.Event
		for _, n := range c.Nodes {
			if n == nil || n.Down || !n.Has[hx] {
				continue
			}
			if e, err := n.Store.GetEvent(hx); err == nil {
				got = e
				break
			}
		}
		if got == nil {
			continue
		}
		pos[hx] = len(all)
		all = append(all, FromEvent(got, rec.CreatorIdx))
	}
	return TopoSort(all)
}

// TopoSort orders events parents-first, stable w.r.t. the given order.
func TopoSort(evs []Ev) []Ev {
	idx := map[string]int{}
	for i, e := range evs {
		idx[e.Hex] = i
	}
	done := make([]bool, len(evs))
	var out []Ev
	var visit func(i int)
	visit = func(i int) {
		if done[i] {
			return
		}
		done[i] = true
		for _, p := range []string{evs[i].Self, evs[i].Other} {
			if j, ok := idx[p]; ok {
				visit(j)
			}
		}
		out = append(out, evs[i])
	}
	for i := range evs {
		visit(i)
	}
	return out
}

// Outcome is the consensus output of one run.
type Outcome struct {
	Events  map[string]EvOut
	Fame    map[int]map[string]int // round → witness → 1 famous / 2 not famous (decided only)
	Decided map[int]bool           // round → its fame election is closed (RoundInfo.decided)
	Frames  map[int]string         // round → frame hash
	Blocks  []string               // body digests in delivery order
	BlockD  []string
	Err     string
	Misses  int // reads that hit an evicted item (recording store)
}

type EvOut struct {
	Round, Lamport, RR          int
	Witness                     bool
	HasRound, HasRR, HasLamport bool
}

// RunOpts selects the variant.
type RunOpts struct {
	N         int
	Badger    bool
	Dir       string
	CacheSize int
	Batch     int    // consensus pass every Batch insertions (0/1: per event; <0: once at the end)
	Skip      []bool // optional explicit pattern: Skip[i] = no pass after insertion i
	Record    bool   // wrap the store to count reads that hit evicted items
	Bare      bool   // static DAG without internal transactions: a bare Hashgraph with a recording commit callback (no Node around it)
}

// Run inserts events (already in the order wanted) into a fresh hashgraph.
func Run(events []Ev, o RunOpts) *Outcome {
	cfg := sim.Config{N: o.N, Solo: true, CacheSize: o.CacheSize}
	if o.Badger {
		cfg.Badger = map[int]bool{0: true}
		cfg.Dir = o.Dir
	}
	var rec *RecStore
	if o.Record {
		cfg.WrapStore = func(idx int, s hg.Store) hg.Store {
			rec = &RecStore{Store: s, stored: map[string]bool{}}
			return rec
		}
	}
	out := &Outcome{Events: map[string]EvOut{}, Fame: map[int]map[string]int{}, Frames: map[int]string{}}
	var h *hg.Hashgraph
	var store hg.Store
	var commits []hg.BlockBody
	if o.Bare && !o.Badger {
		store = hg.NewInmemStore(o.CacheSize)
		if o.Record {
			rec = &RecStore{Store: store, stored: map[string]bool{}}
			store = rec
		}
		h = hg.NewHashgraph(store, func(b *hg.Block) error {
			commits = append(commits, b.Body)
			return nil
		}, quietLogger)
		ps := make([]*peers.Peer, o.N)
		for i := range ps {
			ps[i] = peers.NewPeer(sim.PubHex(i), fmt.Sprintf("addr%d", i), fmt.Sprintf("n%d", i))
		}
		h.Init(peers.NewPeerSet(ps))
	} else {
		c := sim.NewCluster(cfg)
		defer c.Close()
		h = c.Nodes[0].Node.VHashgraph()
		store = c.Nodes[0].Store
		defer func() {
			for _, cr := range c.Nodes[0].App.Commits {
				commits = append(commits, cr.Body)
			}
			finishBlocks(out, commits)
		}()
	}
	pass := func() error {
		if err := h.DivideRounds(); err != nil {
			return fmt.Errorf("DivideRounds: %v", err)
		}
		if err := h.DecideFame(); err != nil {
			return fmt.Errorf("DecideFame: %v", err)
		}
		if err := h.DecideRoundReceived(); err != nil {
			return fmt.Errorf("DecideRoundReceived: %v", err)
		}
		if err := h.ProcessDecidedRounds(); err != nil {
			return fmt.Errorf("ProcessDecidedRounds: %v", err)
		}
		return nil
	}
	func() {
		defer func() {
			if r := recover(); r != nil {
				out.Err = fmt.Sprintf("panic: %v", r)
			}
		}()
		for i := range events {
			e := events[i].Fresh()
			if err := h.InsertEvent(e, true); err != nil {
				out.Err = fmt.Sprintf("insert %d (%s): %v", i, events[i].Hex[:10], err)
				return
			}
			doPass := true
			if o.Skip != nil {
				doPass = !o.Skip[i]
			} else if o.Batch < 0 {
				doPass = false
			} else if o.Batch > 1 {
				doPass = (i+1)%o.Batch == 0
			}
			if doPass {
				if err := pass(); err != nil {
					out.Err = fmt.Sprintf("pass after %d: %v", i, err)
					return
				}
			}
		}
		if err := pass(); err != nil {
			out.Err = "final pass: " + err.Error()
		}
	}()
	if rec != nil {
		out.Misses = rec.Misses
	}
	// extract: round/witness from the stored RoundInfo (recorded values, not
	// recomputed), round-received from RoundInfo.ReceivedEvents, Lamport from
	// the event where the store still has the in-memory object
	for _, e := range events {
		se, err := store.GetEvent(e.Hex)
		if err != nil {
			continue // evicted: not reported
		}
		vi := se.VInfo()
		if vi.HasLamport {
			eo := out.Events[e.Hex]
			eo.Lamport, eo.HasLamport = vi.Lamport, true
			out.Events[e.Hex] = eo
		}
	}
	last := store.LastRound()
	for r := 0; r <= last; r++ {
		ri, err := store.GetRound(r)
		if err != nil {
			continue
		}
		for x, w := range ri.VCreated() {
			eo := out.Events[x]
			eo.Round, eo.Witness, eo.HasRound = r, w, true
			out.Events[x] = eo
		}
		for _, x := range ri.ReceivedEvents {
			eo := out.Events[x]
			eo.RR, eo.HasRR = r, true
			out.Events[x] = eo
		}
		fm := map[string]int{}
		for w, f := range ri.VFame() {
			if f != 0 {
				fm[w] = f
			}
		}
		out.Fame[r] = fm
		if out.Decided == nil {
			out.Decided = map[int]bool{}
		}
		out.Decided[r] = ri.VDecided()
		if f, err := store.GetFrame(r); err == nil {
			if hb, err := f.Hash(); err == nil {
				out.Frames[r] = hex.EncodeToString(hb[:8])
			}
		}
	}
	if o.Bare && !o.Badger {
		finishBlocks(out, commits)
	}
	return out
}

func finishBlocks(out *Outcome, commits []hg.BlockBody) {
	for _, b := range commits {
		b.StateHash = nil
		b.InternalTransactionReceipts = nil
		raw, _ := json.Marshal(b)
		d := sha256.Sum256(raw)
		out.Blocks = append(out.Blocks, hex.EncodeToString(d[:8]))
		out.BlockD = append(out.BlockD, fmt.Sprintf("idx=%d rr=%d txs=%d frame=%x", b.Index, b.RoundReceived, len(b.Transactions), b.FrameHash[:4]))
	}
}

var quietLogger = func() *logrus.Entry {
	l := logrus.New()
	l.Out = io.Discard
	l.Level = logrus.PanicLevel
	return logrus.NewEntry(l)
}()

// Compare reports the first difference between a reference outcome and a
// variant over the same event set ("" if none). Only values both define are
// compared for evicted events; decided-ness itself must agree.
func Compare(ref, v *Outcome, sameSet bool) string {
	_, d := CompareKind(ref, v, sameSet)
	return d
}

// CompareKind compares two outcomes. kind "conflict": some value that both
// runs have decided differs (or the variant failed); kind "progress": no
// conflict, but one run has decided something the other has not (only
// reported with sameSet, except for decisions the variant made and the
// reference did not). Conflicts are looked for first, everywhere.
func CompareKind(ref, v *Outcome, sameSet bool) (kind, diff string) {
	if v.Err != "" && ref.Err == "" {
		return "conflict", "variant failed: " + v.Err
	}
	keys := make([]string, 0, len(v.Events))
	for k := range v.Events {
		keys = append(keys, k)
	}
	sort.Strings(keys)
	rounds := make([]int, 0, len(v.Fame))
	for r := range v.Fame {
		rounds = append(rounds, r)
	}
	sort.Ints(rounds)
	// ---- conflicts
	for _, k := range keys {
		a, ok := ref.Events[k]
		b := v.Events[k]
		if !ok {
			continue
		}
		if a.HasRound && b.HasRound && (a.Round != b.Round || a.Witness != b.Witness) {
			return "conflict", fmt.Sprintf("event %s: round/witness %d/%v vs %d/%v", k[:10], a.Round, a.Witness, b.Round, b.Witness)
		}
		if a.HasLamport && b.HasLamport && a.Lamport != b.Lamport {
			return "conflict", fmt.Sprintf("event %s: Lamport timestamp %d vs %d", k[:10], a.Lamport, b.Lamport)
		}
		if b.HasRR && a.HasRR && a.RR != b.RR {
			return "conflict", fmt.Sprintf("event %s: round-received %d vs %d", k[:10], a.RR, b.RR)
		}
	}
	// Fame. Once a round's election is closed, a witness that arrives later is never voted on: its
	// fame stays "undefined" on that instance and it is never famous ("a witness that is not yet known
	// when a super-majority of witnesses are already decided has no chance of ever being famous").
	// For closed rounds undefined therefore counts as not famous; the closing itself must agree.
	for _, r := range rounds {
		fm, rf := v.Fame[r], ref.Fame[r]
		closed := ref.Decided[r] && v.Decided[r]
		ws := make([]string, 0, len(fm)+len(rf))
		for w := range fm {
			ws = append(ws, w)
		}
		for w := range rf {
			if _, dup := fm[w]; !dup {
				ws = append(ws, w)
			}
		}
		sort.Strings(ws)
		for _, w := range ws {
			f, okf := fm[w]
			g, okg := rf[w]
			if closed {
				if !okf {
					f, okf = 2, true
				}
				if !okg {
					g, okg = 2, true
				}
			}
			if okf && okg && f != g {
				return "conflict", fmt.Sprintf("round %d witness %s: fame %d vs %d", r, w[:10], g, f)
			}
		}
	}
	frs := make([]int, 0, len(v.Frames))
	for r := range v.Frames {
		frs = append(frs, r)
	}
	sort.Ints(frs)
	for _, r := range frs {
		if g, ok := ref.Frames[r]; ok && g != v.Frames[r] {
			return "conflict", fmt.Sprintf("frame of round %d: hash %s vs %s", r, g, v.Frames[r])
		}
	}
	for i, b := range v.Blocks {
		if i < len(ref.Blocks) && ref.Blocks[i] != b {
			return "conflict", fmt.Sprintf("block %d: %s vs %s", i, ref.BlockD[i], v.BlockD[i])
		}
	}
	// ---- progress
	for _, k := range keys {
		a, ok := ref.Events[k]
		b := v.Events[k]
		if !ok {
			continue
		}
		if sameSet && a.HasRound != b.HasRound {
			return "progress", fmt.Sprintf("event %s: round assigned %v vs %v", k[:10], a.HasRound, b.HasRound)
		}
		if b.HasRR && !a.HasRR {
			return "progress", fmt.Sprintf("event %s: round-received %d decided in the variant, undecided in the reference", k[:10], b.RR)
		}
		if sameSet && a.HasRR && !b.HasRR {
			return "progress", fmt.Sprintf("event %s: round-received %d decided in the reference, undecided in the variant", k[:10], a.RR)
		}
	}
	for _, r := range rounds {
		fm, rf := v.Fame[r], ref.Fame[r]
		closed := ref.Decided[r] && v.Decided[r]
		if closed {
			continue
		}
		for w, f := range fm {
			if _, ok := rf[w]; !ok {
				return "progress", fmt.Sprintf("round %d witness %s: fame decided (%d) in the variant only", r, w[:10], f)
			}
		}
		if sameSet {
			for w, g := range rf {
				if _, ok := fm[w]; !ok {
					return "progress", fmt.Sprintf("round %d witness %s: fame decided (%d) in the reference only", r, w[:10], g)
				}
			}
			if ref.Decided[r] != v.Decided[r] {
				return "progress", fmt.Sprintf("round %d: fame election closed in one run only (reference %v, variant %v)", r, ref.Decided[r], v.Decided[r])
			}
		}
	}
	if len(v.Blocks) > len(ref.Blocks) || sameSet && len(v.Blocks) != len(ref.Blocks) {
		return "progress", fmt.Sprintf("variant delivered %d blocks, reference %d", len(v.Blocks), len(ref.Blocks))
	}
	return "", ""
}

// RecStore counts reads that hit an item that was stored earlier and has been
// evicted from the in-memory store ("in-flight window" measurement).
type RecStore struct {
	hg.Store
	stored map[string]bool
	Misses int
}

func (s *RecStore) SetEvent(e *hg.Event) error {
	s.stored["e"+e.Hex()] = true
	s.stored[fmt.Sprintf("p%s/%d", e.Creator(), e.Index())] = true
	return s.Store.SetEvent(e)
}
func (s *RecStore) GetEvent(k string) (*hg.Event, error) {
	e, err := s.Store.GetEvent(k)
	if err != nil && s.stored["e"+k] {
		s.Misses++
	}
	return e, err
}
func (s *RecStore) ParticipantEvent(p string, i int) (string, error) {
	r, err := s.Store.ParticipantEvent(p, i)
	if err != nil && s.stored[fmt.Sprintf("p%s/%d", p, i)] {
		s.Misses++
	}
	return r, err
}
func (s *RecStore) ParticipantEvents(p string, skip int) ([]string, error) {
	r, err := s.Store.ParticipantEvents(p, skip)
	if err != nil {
		s.Misses++
	}
	return r, err
}
func (s *RecStore) SetRound(r int, ri *hg.RoundInfo) error {
	s.stored[fmt.Sprintf("r%d", r)] = true
	return s.Store.SetRound(r, ri)
}
func (s *RecStore) GetRound(r int) (*hg.RoundInfo, error) {
	ri, err := s.Store.GetRound(r)
	if err != nil && s.stored[fmt.Sprintf("r%d", r)] {
		s.Misses++
	}
	return ri, err
}
func (s *RecStore) SetBlock(b *hg.Block) error {
	s.stored[fmt.Sprintf("b%d", b.Index())] = true
	return s.Store.SetBlock(b)
}
func (s *RecStore) GetBlock(i int) (*hg.Block, error) {
	b, err := s.Store.GetBlock(i)
	if err != nil && s.stored[fmt.Sprintf("b%d", i)] {
		s.Misses++
	}
	return b, err
}

// Inst is a long-lived hashgraph instance (inside a real Node) that the
// admission checker feeds event by event.
type Inst struct {
	C *sim.Cluster
	N *sim.SimNode
	H *hg.Hashgraph
}

// Open creates a Solo cluster of n genesis validators and returns node 0's hashgraph.
func Open(n int, badger bool, dir string, cache int) *Inst {
	cfg := sim.Config{N: n, Solo: true, CacheSize: cache}
	if badger {
		cfg.Badger = map[int]bool{0: true}
		cfg.Dir = dir
	}
	c := sim.NewCluster(cfg)
	return &Inst{C: c, N: c.Nodes[0], H: c.Nodes[0].Node.VHashgraph()}
}

func (in *Inst) Close() { in.C.Close() }

// Insert does what core.sync does for one full event: insertion + consensus pass.
func (in *Inst) Insert(e *hg.Event) (err error, panicked string) {
	defer func() {
		if r := recover(); r != nil {
			panicked = fmt.Sprint(r)
			err = fmt.Errorf("panic: %v", r)
		}
	}()
	return in.H.InsertEventAndRunConsensus(e, true), ""
}

// InsertNoWire is the insertion core.sync performs after ReadWireInfo: the wire
// information is taken as already set (setWireInfo=false).
func (in *Inst) InsertNoWire(e *hg.Event) (err error, panicked string) {
	defer func() {
		if r := recover(); r != nil {
			panicked = fmt.Sprint(r)
			err = fmt.Errorf("panic: %v", r)
		}
	}()
	return in.H.InsertEventAndRunConsensus(e, false), ""
}

// Outcome extracts the consensus outcome of the instance for the given events.
func (in *Inst) Outcome(events []Ev) *Outcome {
	out := &Outcome{Events: map[string]EvOut{}, Fame: map[int]map[string]int{}, Frames: map[int]string{}}
	store := in.N.Store
	for _, e := range events {
		se, err := store.GetEvent(e.Hex)
		if err != nil {
			continue
		}
		vi := se.VInfo()
		if vi.HasLamport {
			eo := out.Events[e.Hex]
			eo.Lamport, eo.HasLamport = vi.Lamport, true
			out.Events[e.Hex] = eo
		}
	}
	last := store.LastRound()
	for r := 0; r <= last; r++ {
		ri, err := store.GetRound(r)
		if err != nil {
			continue
		}
		for x, w := range ri.VCreated() {
			eo := out.Events[x]
			eo.Round, eo.Witness, eo.HasRound = r, w, true
			out.Events[x] = eo
		}
		for _, x := range ri.ReceivedEvents {
			eo := out.Events[x]
			eo.RR, eo.HasRR = r, true
			out.Events[x] = eo
		}
		fm := map[string]int{}
		for w, f := range ri.VFame() {
			if f != 0 {
				fm[w] = f
			}
		}
		out.Fame[r] = fm
		if out.Decided == nil {
			out.Decided = map[int]bool{}
		}
		out.Decided[r] = ri.VDecided()
		if f, err := store.GetFrame(r); err == nil {
			if hb, err := f.Hash(); err == nil {
				out.Frames[r] = hex.EncodeToString(hb[:8])
			}
		}
	}
	var commits []hg.BlockBody
	for _, cr := range in.N.App.Commits {
		commits = append(commits, cr.Body)
	}
	finishBlocks(out, commits)
	return out
}

// StateDigest covers what C07 calls "the DAG, the known-events map and all
// consensus results": per-participant listings, known map, last events,
// undetermined queue, pending rounds, rounds (created/received/fame), last
// consensus round, blocks, pending signatures.
func (in *Inst) StateDigest() string {
	h := sha256.New()
	store := in.N.Store
	known := store.KnownEvents()
	ids := []int{}
	for id := range known {
		ids = append(ids, int(id))
	}
	sort.Ints(ids)
	rep := store.RepertoireByID()
	for _, id := range ids {
		fmt.Fprintf(h, "k%d=%d|", id, known[uint32(id)])
		if p, ok := rep[uint32(id)]; ok {
			l, err := store.ParticipantEvents(p.PubKeyString(), -1)
			fmt.Fprintf(h, "pe=%v/%v|", l, err)
			last, err := store.LastEventFrom(p.PubKeyString())
			fmt.Fprintf(h, "last=%s/%v|", last, err != nil)
		}
	}
	// the insertion counter is part of the DAG's representation: it is stored with every event and
	// the database lists events by it
	fmt.Fprintf(h, "und=%v|pr=%v|ple=%d|topo=%d|", in.H.UndeterminedEvents, in.H.VPendingRounds(), in.H.PendingLoadedEvents, in.H.VTopologicalIndex())
	if in.H.LastConsensusRound != nil {
		fmt.Fprintf(h, "lcr=%d|", *in.H.LastConsensusRound)
	}
	ps := in.H.PendingSignatures.VKeys()
	sort.Strings(ps)
	fmt.Fprintf(h, "sigs=%v|", ps)
	last := store.LastRound()
	fmt.Fprintf(h, "lastround=%d|lastblock=%d|commits=%d|", last, store.LastBlockIndex(), len(in.N.App.Commits))
	for r := 0; r <= last; r++ {
		ri, err := store.GetRound(r)
		if err != nil {
			continue
		}
		cr := ri.VCreated()
		ks := []string{}
		for k, w := range cr {
			ks = append(ks, fmt.Sprintf("%s:%v", k, w))
		}
		sort.Strings(ks)
		fm := ri.VFame()
		fs := []string{}
		for k, f := range fm {
			fs = append(fs, fmt.Sprintf("%s:%d", k, f))
		}
		sort.Strings(fs)
		fmt.Fprintf(h, "r%d:%v:%v:%v|", r, ks, ri.ReceivedEvents, fs)
	}
	all, _ := store.GetAllPeerSets()
	rs := []int{}
	for r := range all {
		rs = append(rs, r)
	}
	sort.Ints(rs)
	for _, r := range rs {
		fmt.Fprintf(h, "ps%d:%d|", r, len(all[r]))
	}
	return hex.EncodeToString(h.Sum(nil)[:12])
}
