//go:build verif

// Accessors added to package hashgraph at build time (go build -overlay) by the
// verification harness in /verif. They only expose unexported state; they never
// change behaviour of the package.
package hashgraph

import (
	"sync/atomic"
	"time"

	"github.com/mosaicnetworks/babble/src/peers"
)

// ---------------------------------------------------------------------------
// clock seam (NewEvent's time.Now().Unix() is textually rewritten to verifNow())

var verifClock atomic.Value // func() int64

// VSetClock installs a harness clock; nil restores the wall clock.
func VSetClock(f func() int64) {
	if f == nil {
		verifClock.Store((func() int64)(nil))
		return
	}
	verifClock.Store(f)
}

func verifNow() int64 {
	if v := verifClock.Load(); v != nil {
		if f := v.(func() int64); f != nil {
			return f()
		}
	}
	return time.Now().Unix()
}

// ---------------------------------------------------------------------------
// Event private fields

// VEventInfo is a copy of an event's private consensus fields.
type VEventInfo struct {
	Round            int // -1<<31 when unset
	Lamport          int
	RoundReceived    int
	TopologicalIndex int
	HasRound         bool
	HasLamport       bool
	HasRoundReceived bool
	LastAncestors    map[string]EventCoordinates
	FirstDescendants map[string]EventCoordinates
	CreatorID        uint32
	OtherParentCID   uint32
	SelfParentIndex  int
	OtherParentIndex int
}

// VInfo returns the private fields of e.
func (e *Event) VInfo() VEventInfo {
	r := VEventInfo{
		TopologicalIndex: e.topologicalIndex,
		CreatorID:        e.Body.creatorID,
		OtherParentCID:   e.Body.otherParentCreatorID,
		SelfParentIndex:  e.Body.selfParentIndex,
		OtherParentIndex: e.Body.otherParentIndex,
	}
	if e.round != nil {
		r.Round, r.HasRound = *e.round, true
	}
	if e.lamportTimestamp != nil {
		r.Lamport, r.HasLamport = *e.lamportTimestamp, true
	}
	if e.roundReceived != nil {
		r.RoundReceived, r.HasRoundReceived = *e.roundReceived, true
	}
	r.LastAncestors = map[string]EventCoordinates(e.lastAncestors.Copy())
	r.FirstDescendants = map[string]EventCoordinates(e.firstDescendants.Copy())
	return r
}

// VSetTopologicalIndex is used by the store model checker to build events
// with a chosen topological index.
func (e *Event) VSetTopologicalIndex(i int) { e.topologicalIndex = i }

// VClearMemo drops the memoised hash/hex/creator (after a harness mutation of
// the body) so that they are recomputed.
func (e *Event) VClearMemo() {
	e.hash = nil
	e.hex = ""
	e.creator = ""
}

// ---------------------------------------------------------------------------
// Hashgraph private fields

// VRoundLowerBound returns (value, set).
func (h *Hashgraph) VRoundLowerBound() (int, bool) {
	if h.roundLowerBound == nil {
		return 0, false
	}
	return *h.roundLowerBound, true
}

// VTopologicalIndex returns the private insertion counter.
func (h *Hashgraph) VTopologicalIndex() int { return h.topologicalIndex }

// VRound / VWitness / VLamport / VRoundReceived expose the memoised consensus
// functions.
func (h *Hashgraph) VRound(x string) (int, error)         { return h.round(x) }
func (h *Hashgraph) VWitness(x string) (bool, error)      { return h.witness(x) }
func (h *Hashgraph) VLamport(x string) (int, error)       { return h.lamportTimestamp(x) }
func (h *Hashgraph) VRoundReceived(x string) (int, error) { return h.roundReceived(x) }
func (h *Hashgraph) VAncestor(x, y string) (bool, error)  { return h.ancestor(x, y) }

// VRoundDecided exposes RoundInfo.decided.
func (r *RoundInfo) VDecided() bool { return r.decided }

// VFame returns witness → fame (0 undefined, 1 true, 2 false) for a round.
func (r *RoundInfo) VFame() map[string]int {
	res := map[string]int{}
	for x, e := range r.CreatedEvents {
		if e.Witness {
			res[x] = int(e.Famous)
		}
	}
	return res
}

// VCreated returns hash → witness flag.
func (r *RoundInfo) VCreated() map[string]bool {
	res := map[string]bool{}
	for x, e := range r.CreatedEvents {
		res[x] = e.Witness
	}
	return res
}

// VPendingRounds lists (index, decided).
func (h *Hashgraph) VPendingRounds() [][2]int {
	res := [][2]int{}
	for _, p := range h.PendingRounds.GetOrderedPendingRounds() {
		d := 0
		if p.Decided {
			d = 1
		}
		res = append(res, [2]int{p.Index, d})
	}
	return res
}

// VSigPoolKeys lists the keys of a SigPool.
func (sp *SigPool) VKeys() []string {
	res := []string{}
	for k := range sp.items {
		res = append(res, k)
	}
	return res
}

// ---------------------------------------------------------------------------
// Badger store internals (durable readers)

func (s *BadgerStore) VDbGetEvent(hash string) (*Event, error)  { return s.dbGetEvent(hash) }
func (s *BadgerStore) VDbGetBlock(i int) (*Block, error)        { return s.dbGetBlock(i) }
func (s *BadgerStore) VDbGetFrame(r int) (*Frame, error)        { return s.dbGetFrame(r) }
func (s *BadgerStore) VDbGetRound(r int) (*RoundInfo, error)    { return s.dbGetRound(r) }
func (s *BadgerStore) VDbTopologicalEvents(start, n int) ([]*Event, error) {
	return s.dbTopologicalEvents(start, n)
}
func (s *BadgerStore) VDbParticipantEvents(p string, skip int) ([]string, error) {
	return s.dbParticipantEvents(p, skip)
}
func (s *BadgerStore) VDbParticipantEvent(p string, index int) (string, error) {
	return s.dbParticipantEvent(p, index)
}
func (s *BadgerStore) VDbGetPeerSet(r int) (*peers.PeerSet, error) { return s.dbGetPeerSet(r) }
func (s *BadgerStore) VDbGetRoot(p string) (*Root, error)            { return s.dbGetRoot(p) }
func (s *BadgerStore) VDbGetRepertoire() (map[string]*peers.Peer, error) {
	return s.dbGetRepertoire()
}
func (s *BadgerStore) VInmem() *InmemStore { return s.inmemStore }

// VDbSetEvents writes events straight to the database (the transaction
// BadgerStore.SetEvent runs after the cache update).
func (s *BadgerStore) VDbSetEvents(events []*Event) error { return s.dbSetEvents(events) }

// VStronglySee is the node's own "x strongly sees y" for the validator set of the given round (memoised exactly as the
// consensus functions see it); VSee is its "x sees y".
func (h *Hashgraph) VStronglySee(x, y string, round int) (bool, error) {
	ps, err := h.Store.GetPeerSet(round)
	if err != nil {
		return false, err
	}
	return h.stronglySee(x, y, ps)
}
func (h *Hashgraph) VSee(x, y string) (bool, error) { return h.see(x, y) }
