//go:build verif

// Accessors added to package node at build time (go build -overlay) by the
// verification harness in /verif. Thin exported wrappers around unexported
// methods / fields; no behaviour of the package is changed.
package node

import (
	"os/signal"
	"time"

	hg "github.com/mosaicnetworks/babble/src/hashgraph"
	"github.com/mosaicnetworks/babble/src/net"
	_state "github.com/mosaicnetworks/babble/src/node/state"
	"github.com/mosaicnetworks/babble/src/peers"
)

func (n *Node) VGossip(peer *peers.Peer) error { return n.gossip(peer) }
func (n *Node) VPull(peer *peers.Peer) (map[uint32]int, error) {
	return n.pull(peer)
}
func (n *Node) VPush(peer *peers.Peer, known map[uint32]int) error { return n.push(peer, known) }
func (n *Node) VMonologue() error                                 { return n.monologue() }
func (n *Node) VProcessRPC(rpc net.RPC)                           { n.processRPC(rpc) }
func (n *Node) VAddTransaction(tx []byte)                         { n.addTransaction(tx) }
func (n *Node) VFastForward() error                               { return n.fastForward() }
func (n *Node) VCheckSuspend()                                    { n.checkSuspend() }
func (n *Node) VTransition(s _state.State)                        { n.transition(s) }
func (n *Node) VStopSignals()                                     { signal.Stop(n.sigCh) }
func (n *Node) VInitialUndetermined() int                         { return n.initialUndeterminedEvents }
func (n *Node) VSuspendLimit() int                                { return n.conf.SuspendLimit }

// VSync is Node.sync under the core lock, as pull / processEagerSyncRequest
// call it.
func (n *Node) VSync(fromID uint32, events []hg.WireEvent) error {
	n.coreLock.Lock()
	defer n.coreLock.Unlock()
	return n.sync(fromID, events)
}

// VAddInternalTransaction does what processJoinRequest / core.leave do to
// dispatch an InternalTransaction (without blocking on the promise).
func (n *Node) VAddInternalTransaction(itx hg.InternalTransaction) {
	n.coreLock.Lock()
	defer n.coreLock.Unlock()
	n.core.addInternalTransaction(itx)
}

// VLeaveTx builds the signed PEER_REMOVE transaction exactly as core.leave
// does; ok=false in the cases where core.leave does nothing.
func (n *Node) VLeaveTx() (itx hg.InternalTransaction, ok bool) {
	c := n.core
	p, isVal := c.validators.ByID[c.validator.ID()]
	if !isVal || len(c.validators.Peers) <= 1 || c.maintenanceMode {
		return itx, false
	}
	itx = hg.NewInternalTransaction(hg.PEER_REMOVE, *p)
	itx.Sign(c.validator.Key)
	return itx, true
}

// VJoinAccepted performs the post-acceptance part of Node.join.
func (n *Node) VJoinAccepted(acceptedRound int) {
	n.core.acceptedRound = acceptedRound
	n.core.removedRound = -1
	n.setBabblingOrCatchingUpState()
}

// VJoin runs the real Node.join (needs a transport whose Join answers).
func (n *Node) VJoin() error { return n.join() }

// VCoreFastForward is core.fastForward under the lock.
func (n *Node) VCoreFastForward(block *hg.Block, frame *hg.Frame) error {
	n.coreLock.Lock()
	defer n.coreLock.Unlock()
	return n.core.fastForward(block, frame)
}

// VProcessAcceptedInternalTransactions is the tail of Node.fastForward.
func (n *Node) VProcessAcceptedInternalTransactions(rr int, receipts []hg.InternalTransactionReceipt) error {
	return n.core.processAcceptedInternalTransactions(rr, receipts)
}

// VEventDiff is core.eventDiff under the lock.
func (n *Node) VEventDiff(known map[uint32]int) ([]*hg.Event, error) {
	n.coreLock.Lock()
	defer n.coreLock.Unlock()
	return n.core.eventDiff(known)
}

// VSetHeadAndSeq exposes core.setHeadAndSeq.
func (n *Node) VSetHeadAndSeq() error { return n.core.setHeadAndSeq() }

// VCoreState is a copy of the interesting private state of the core.
type VCoreState struct {
	Head                string
	Seq                 int
	AcceptedRound       int
	RemovedRound        int
	TargetRound         int
	LastPeerChangeRound int
	TxPool              [][]byte
	ItxPool             []hg.InternalTransaction
	SelfSigs            []hg.BlockSignature
	Heads               map[uint32]string
	Validators          []*peers.Peer
	Peers               []*peers.Peer
	SelectorPeers       []*peers.Peer
	Busy                bool
	Promises            int
}

func (n *Node) VCoreState() VCoreState {
	c := n.core
	s := VCoreState{
		Head:                c.head,
		Seq:                 c.seq,
		AcceptedRound:       c.acceptedRound,
		RemovedRound:        c.removedRound,
		TargetRound:         c.targetRound,
		LastPeerChangeRound: c.lastPeerChangeRound,
		TxPool:              append([][]byte{}, c.transactionPool...),
		ItxPool:             append([]hg.InternalTransaction{}, c.internalTransactionPool...),
		SelfSigs:            c.selfBlockSignatures.Slice(),
		Heads:               map[uint32]string{},
		Validators:          c.validators.Peers,
		Peers:               c.peers.Peers,
		SelectorPeers:       c.peerSelector.getPeers().Peers,
		Busy:                c.busy(),
		Promises:            len(c.promises),
	}
	for id, ev := range c.heads {
		if ev == nil {
			s.Heads[id] = ""
		} else {
			s.Heads[id] = ev.Hex()
		}
	}
	return s
}

// VHashgraph returns the node's hashgraph.
func (n *Node) VHashgraph() *hg.Hashgraph { return n.core.hg }

// VKeyHex returns the validator public key.
func (n *Node) VKeyHex() string { return n.core.validator.PublicKeyHex() }

// ---------------------------------------------------------------------------
// scripted peer selector and timer for driving the real babble() loop

// VScriptedSelector implements peerSelector; Choose is asked for every next().
type VScriptedSelector struct {
	set    *peers.PeerSet
	selfID uint32
	Choose func(candidates []*peers.Peer) *peers.Peer
	Last   uint32
}

func (s *VScriptedSelector) getPeers() *peers.PeerSet { return s.set }
func (s *VScriptedSelector) updateLast(peer uint32, connected bool) bool {
	s.Last = peer
	return false
}
func (s *VScriptedSelector) next() *peers.Peer {
	_, others := peers.ExcludePeer(s.set.Peers, s.selfID)
	if len(others) == 0 {
		return nil
	}
	return s.Choose(others)
}

// VSetSelector replaces the core's peer selector (an interface field).
func (n *Node) VSetSelector(choose func([]*peers.Peer) *peers.Peer) *VScriptedSelector {
	sel := &VScriptedSelector{set: n.core.peers, selfID: n.core.validator.ID(), Choose: choose}
	n.core.selectorLock.Lock()
	n.core.peerSelector = sel
	n.core.selectorLock.Unlock()
	return sel
}

// VSetTimerFactory replaces the control timer by one built on the given
// factory (the constructor newControlTimer takes exactly this parameter).
func (n *Node) VSetTimerFactory(f func(time.Duration) <-chan time.Time) {
	n.controlTimer = newControlTimer(timerFactory(f))
}

// VTimerIsSet reads controlTimer.isSet.
func (n *Node) VTimerIsSet() bool { return n.controlTimer.isSet }

// VSelfSigPool exposes the pool of own block signatures waiting for the next
// self-event (used to play a validator that gossips adversarial signatures).
func (n *Node) VSelfSigPool() *hg.SigPool { return n.core.selfBlockSignatures }

// VBabbleLoop runs the real babbling loop (Node.babble with gossip enabled) until the node leaves it, with the
// control timer's own run loop started on the given initial timeout; the harness supplies the timer factory
// beforehand (VSetTimerFactory). Returns when babble() returns.
func (n *Node) VBabbleLoop() {
	go n.controlTimer.run(n.conf.HeartbeatTimeout)
	n.babble(true)
	n.controlTimer.shutdown()
}
