//go:build verif

// Accessor added to package net at build time by the verification harness.
package net

import "net"

// VHandleConn runs the real per-connection handler on conn in the caller's
// goroutine (the harness puts its recover boundary around it).
func (n *NetworkTransport) VHandleConn(conn net.Conn) { n.handleConn(conn) }
