#!/bin/bash
# usage: validate_seed.sh <ID> : in /tmp/seed-<ID>: build, full test-suite, demo with change (must fail) and without (must pass)
id=$1
wt=/tmp/${SEEDPFX:-seed-}$id
export GOFLAGS=-mod=mod GOPROXY=off GOSUMDB=off GOTOOLCHAIN=local
cd $wt || exit 2
out=/var/tmp/seedval-$id.log
: > $out
demo=$(ls _seed/*_test.go 2>/dev/null | head -1)
pkg=$(grep -m1 '^package ' $demo | awk '{print $2}')
case $pkg in
  node) dir=src/node;; hashgraph) dir=src/hashgraph;; peers) dir=src/peers;; net) dir=src/net;; common) dir=src/common;;
  inmem) dir=src/proxy/inmem;; socket) dir=src/proxy/socket;; app) dir=src/proxy/socket/app;; babble) dir=src/babble;; keys) dir=src/crypto/keys;;
  *) dir=$(grep -rl "^package $pkg\$" src --include=*.go | head -1 | xargs dirname);;
esac
tests=$(grep -o '^func Test[A-Za-z0-9_]*' $demo | awk '{print $2}' | paste -sd'|')
echo "seed $id: demo $demo -> $dir, tests: $tests" >> $out
go build ./... >> $out 2>&1 || { echo "BUILD FAILED" >> $out; exit 1; }
echo "--- suite with the change" >> $out
/verif/tools/netns.sh go test -vet=off -count=1 -timeout 25m ./... > /var/tmp/seedsuite-$id.log 2>&1
echo "suite exit=$? ; failing tests: $(grep -- '--- FAIL' /var/tmp/seedsuite-$id.log | awk '{print $3}' | paste -sd' ')" >> $out
cp $demo $dir/zz_seed_demo_test.go
echo "--- demo WITH the change (must fail)" >> $out
go test -vet=off -count=1 -run "^($tests)\$" ./$dir/ > /var/tmp/seeddemo-$id-with.log 2>&1; echo "exit=$?" >> $out
# (git stash is shared by all worktrees of a repository: never use it here)
git diff -- src > /var/tmp/seedcur-$id.diff
git apply -R /var/tmp/seedcur-$id.diff
echo "--- demo WITHOUT the change (must pass)" >> $out
go test -vet=off -count=1 -run "^($tests)\$" ./$dir/ > /var/tmp/seeddemo-$id-without.log 2>&1; echo "exit=$?" >> $out
git apply /var/tmp/seedcur-$id.diff
rm -f $dir/zz_seed_demo_test.go
git status --short >> $out
cat $out
