#!/usr/bin/env python3
"""Generates /verif/DETECTION.md from /verif/seeded/*/meta.json and tools/mutation_results_all.json."""
import json, glob, os
out = []
out.append("# Which checks catch which changes\n")
out.append("Two kinds of deliberately broken variants of mosaicnetworks/babble were run against the checks. Every one of them compiles; none is ever committed to /repo (applied with `git -C /repo apply`, checked, undone with `git -C /repo checkout -- .`; `tools/seedcheck.sh` / `tools/mutations.py`).\n")
out.append("## 1. Seeded changes produced independently\n")
out.append("Each was produced by a fresh sub-agent that was given only the text of one property and its own scratch git worktree of /repo (nothing from /verif), with the task: break the property, keep the code compiling and the repository's test-suite passing, need something specific to manifest, and deliver a demonstration that fails with the change and passes without it. Every seed listed here was re-validated by us: build, the full repository test-suite with the change (in a private network namespace, because the node tests bind fixed ports; single timing-related failures under load were re-run in isolation), the demonstration with the change (fails) and without (passes). `meta.json` of each seed records those runs.\n")
out.append("| seed | property | what it needs to manifest | caught by |")
out.append("|---|---|---|---|")
for d in sorted(glob.glob("/verif/seeded/*")):
    m = json.load(open(os.path.join(d, "meta.json")))
    out.append("| `%s` | %s | %s | %s |" % (os.path.basename(d), m["property"], m["needs_to_manifest"].replace("|", "/"), m["caught_by"].replace("|", "/")))
out.append("")
out.append("Where \"check strengthened after this seed\" is noted, or the entry names a scenario that DESIGN.md §5 \"As built\" attributes to the seed, the check as first built did not report the seed; the gap and the added exploration are described there. Seeds marked \"not detected\" are outside what the checks explore, for the reasons given in DESIGN.md §6 (two seeds of round 4: a store read fault inside a consensus pass, and an in-memory cache smaller than a silent validator's history – regimes in which the unchanged tree fails as well). `C02-reset-keeps-blocks` can no longer be reached since fix 74088e2 removed the path it needed. The last regression of every stored seed against the current checks is summarised in `tools/seed_regression.txt`.\n")
out.append("## 2. Own mutation demonstrations\n")
out.append("One deliberate edit per property (several for some), taken from the \"Detects\" lists of DESIGN.md §5, each run against the property's quick check with a 80–90 s budget (`tools/mutations.py`). The repository test-suite was not re-run for these (the independently seeded changes above are the ones validated against it).\n")
out.append("| id | property | file | change | check result | first report |")
out.append("|---|---|---|---|---|---|")
for r in json.load(open("/verif/tools/mutation_results_all.json")):
    res = "**reported** (%d keys)" % r["violations"] if r.get("exit") == 1 else ("not reported" if r.get("exit") == 0 else "n/a")
    out.append("| %s | %s | `%s` | %s | %s | %s |" % (r["id"], r["property"], r.get("file", ""), r.get("change", "").replace("|", "/"), res, (r.get("first") or "").replace("|", "/")[:220]))
out.append("")
out.append("M07b is not reported and is an equivalent mutant on the explored paths: with the other-parent check removed, an unknown other-parent is still refused by `SetWireInfo` (full events) and cannot be expressed in wire form (`ReadWireInfo` resolves it by creator id and index).\n")
open("/verif/DETECTION.md", "w").write("\n".join(out) + "\n")
print("written", len(out), "lines")
