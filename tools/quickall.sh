#!/bin/bash
# run every registered quick check on the current tree; one line per check: id, exit code, wall seconds
cd /verif
tier=${1:-quick}
out=/var/tmp/${tier}all.log; : > $out
for i in $(seq -w 1 20); do
  id=C$i; t0=$(date +%s)
  ./check $id --tier $tier > /var/tmp/${tier}-$id.log 2>&1; rc=$?
  echo "$id exit=$rc wall=$(( $(date +%s)-t0 ))s viol=$(grep -c '^VIOLATION' /var/tmp/${tier}-$id.log) known=$(grep -c '^KNOWN-FINDING' /var/tmp/${tier}-$id.log)" >> $out
done
echo ALLDONE >> $out
