#!/bin/bash
# apply every stored seeded change to /repo in turn, run the quick check of its property (and any extra ids given in
# tools/seedall.extra as "<seed-dir> <ID>..."), undo it; one line per seed and check in /var/tmp/seedall.log
# optional arguments: seed directory names (default: all)
export VERIF_EVIDENCE_DIR=/var/tmp/seed-evidence
cd /repo && git diff --quiet || { echo "/repo working tree not clean"; exit 2; }
out=/var/tmp/seedall.log; : > $out
list="$@"; [ -z "$list" ] && list=$(ls /verif/seeded)
for name in $list; do
  d=/verif/seeded/$name
  prop=$(python3 -c "import json;print(json.load(open('$d/meta.json'))['property'])")
  extra=$(grep "^$name " /verif/tools/seedall.extra 2>/dev/null | cut -d' ' -f2-)
  if ! git -C /repo apply --check $d/patch.diff 2>/dev/null; then echo "$name: patch does not apply to the current tree" >> $out; continue; fi
  git -C /repo apply $d/patch.diff
  for id in $prop $extra; do
    t0=$(date +%s)
    (cd /verif && ./check $id --tier quick > /var/tmp/seedall-$name-$id.log 2>&1); rc=$?
    echo "$name $id exit=$rc viol=$(grep -c '^VIOLATION' /var/tmp/seedall-$name-$id.log) wall=$(( $(date +%s)-t0 ))s first=$(grep -m1 -A1 '^VIOLATION' /var/tmp/seedall-$name-$id.log | tail -1 | cut -c1-140)" >> $out
  done
  git -C /repo checkout -- .
done
echo ALLDONE >> $out
