#!/bin/bash
# usage: seedcheck.sh <patch.diff> <ID> [<ID>...] : apply a seeded change to /repo, run the quick checks, undo it
patch=$1; shift
export VERIF_EVIDENCE_DIR=/var/tmp/seed-evidence
cd /repo && git diff --quiet || { echo "/repo working tree not clean"; exit 2; }
git -C /repo apply "$patch" || { echo "patch does not apply"; exit 2; }
for id in "$@"; do
  echo "=== $id with $(basename $(dirname $patch))/$(basename $patch)"
  (cd /verif && VERIF_BUDGET_S=${SEED_BUDGET:-120} ./check $id --tier ${SEED_TIER:-quick} 2>&1 | grep -A1 "VIOLATION\|HARNESS\|KNOWN" | cut -c1-400 | head -12; echo "exit=${PIPESTATUS[0]}")
done
git -C /repo checkout -- . ; git -C /repo status --short | head -3
