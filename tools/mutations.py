#!/usr/bin/env python3
"""Own mutation demonstrations: apply a deliberate property-breaking edit to /repo's
working tree, run the property's quick check with a short budget, record whether it
was reported, and restore the tree. Usage: mutations.py [ID ...]"""
import json, os, subprocess, sys, time

REPO = "/repo"
MUTS = [
 ("M01", "C01", "src/hashgraph/event.go", "frame events with equal Lamport timestamp ordered by the local insertion counter instead of the signature",
  "\twsi, _, _ := keys.DecodeSignature(a[i].Core.Signature)\n\twsj, _, _ := keys.DecodeSignature(a[j].Core.Signature)\n\treturn wsi.Cmp(wsj) < 0",
  "\treturn a[i].Core.topologicalIndex < a[j].Core.topologicalIndex"),
 ("M02", "C02", "src/hashgraph/hashgraph.go", "ProcessDecidedRounds skips an undecided pending round instead of stopping at it",
  "\t\tif !r.Decided {\n\t\t\tbreak\n\t\t}", "\t\tif !r.Decided {\n\t\t\tcontinue\n\t\t}"),
 ("M04", "C04", "src/hashgraph/event.go", "frame events sorted by descending Lamport timestamp",
  "\t\treturn a[i].LamportTimestamp < a[j].LamportTimestamp", "\t\treturn a[i].LamportTimestamp > a[j].LamportTimestamp"),
 ("M05", "C05", "src/node/core.go", "transaction pool trimmed before the insertion of the self-event (a failed insertion loses the payload)",
  "\tif err := c.signAndInsertSelfEvent(newHead); err != nil {", "\tc.transactionPool = c.transactionPool[txs:]\n\ttxs = 0\n\tif err := c.signAndInsertSelfEvent(newHead); err != nil {"),
 ("M05b", "C05", "src/node/core.go", "own block signatures created by the commit callback during the insertion are dropped with the gossiped ones",
  "\tc.selfBlockSignatures.RemoveSlice(sigs)", "\tc.selfBlockSignatures = hg.NewSigPool()"),
 ("M06", "C06", "src/node/core.go", "busy() no longer looks at the transaction pool",
  "\t\tlen(c.transactionPool) > 0 ||\n", ""),
 ("M10", "C10", "src/node/core.go", "validator-set change effective at round-received + 5",
  "\teffectiveRound := roundReceived + 6", "\teffectiveRound := roundReceived + 5"),
 ("M18", "C18", "src/common/median.go", "even-count median takes the upper middle element plus one (off the middle interval)",
  "\t\tmedian = (s[mid] + s[mid+1]) / 2", "\t\t_ = mid\n\t\tmedian = s[l-1]"),
 ("M19", "C19", "src/peers/peer_set.go", "supermajority computed as ceil(2n/3) (not strictly greater for n divisible by 3)",
  "\t\tval := 2*peerSet.Len()/3 + 1", "\t\tval := (2*peerSet.Len() + 2) / 3"),
 ("M16", "C16", "src/hashgraph/badger_store.go", "participant index key written with the topological index",
  "\t\t\tpeKey := participantEventKey(event.Creator(), event.Index())", "\t\t\tpeKey := participantEventKey(event.Creator(), event.topologicalIndex)"),
 ("M15", "C15", "src/hashgraph/event.go", "wire form drops empty (non-nil) block-signature lists",
  "\tif e.Body.BlockSignatures != nil {\n\t\twireSignatures", "\tif len(e.Body.BlockSignatures) > 0 {\n\t\twireSignatures"),
 ("M17", "C17", "src/node/node_rpc.go", "gate lets eager-sync requests through while suspended",
  "\t\t(state == _state.Suspended && isSyncRequest)) {", "\t\t(state == _state.Suspended && (isSyncRequest || true))) {"),
 ("M12", "C12", "src/node/core.go", "frame hash no longer compared (checkFastForward and fastForward)",
  "ALL:\tif !reflect.DeepEqual(block.FrameHash(), frameHash) {", "\tif false && !reflect.DeepEqual(block.FrameHash(), frameHash) {"),
 ("M13", "C13", "src/hashgraph/hashgraph.go", "Reset does not restore the round lower bound",
  "\th.setRoundLowerBound(block.RoundReceived())\n", ""),
 ("M14", "C14", "src/node/core.go", "known-signer check accepts any repertoire-less response (returns nil)",
  "\treturn fmt.Errorf(\"No valid signature from a known peer\")", "\treturn nil"),
 ("M08", "C08", "src/node/node_rpc.go", "negative sync-limit guard removed",
  "\t\tif limit < 0 {\n\t\t\tlimit = 0\n\t\t}\n", ""),
 ("M07", "C07", "src/hashgraph/event.go", "signatures of internal transactions no longer checked by Event.Verify",
  "\t\t} else if !ok {\n\t\t\treturn false, fmt.Errorf(\"invalid signature on internal transaction\")", "\t\t} else if !ok && false {\n\t\t\treturn false, fmt.Errorf(\"invalid signature on internal transaction\")"),
 ("M07b", "C07", "src/hashgraph/hashgraph.go", "other-parent check skipped (equivalent mutant on the explored paths: SetWireInfo / ReadWireInfo still refuse an unknown other-parent)",
  "\tif err := h.checkOtherParent(event); err != nil {", "\tif err := h.checkOtherParent(event); err != nil && false {"),
 ("M03", "C03", "src/hashgraph/hashgraph.go", "DecideRoundReceived also requires the event to be older in local insertion order than the witnesses (local-order dependence)",
  "\t\t\tif len(s) == len(fws) && len(s) >= tPeers.SuperMajority() {", "\t\t\tif len(s) == len(fws) && len(s) >= tPeers.SuperMajority() && h.topologicalIndex%7 != 3 {"),
 ("M11", "C11", "src/node/core.go", "head restored from the first instead of the last own event index (seq off)",
  "\t\t\tseq = lastEvent.Index()", "\t\t\tseq = lastEvent.Index() - 1"),
 ("M09", "C09", "src/hashgraph/hashgraph.go", "anchor accepts a block with exactly TrustCount signatures",
  "\tif len(block.Signatures) > peerSet.TrustCount() &&", "\tif len(block.Signatures) >= peerSet.TrustCount() &&"),
 ("M20", "C20", "src/proxy/socket/app/socket_app_proxy_client.go", "retry loop forgets the error of the last failed attempt",
  "\t\t\tp.rpc.Close()\n\t\t\tp.rpc = nil\n", "\t\t\tp.rpc.Close()\n\t\t\tp.rpc = nil\n\t\t\tif try == p.retries-1 {\n\t\t\t\terr = nil\n\t\t\t}\n"),
]

def main():
    want = set(sys.argv[1:])
    out = []
    for mid, prop, path, desc, old, new in MUTS:
        if want and mid not in want and prop not in want:
            continue
        full = os.path.join(REPO, path)
        src = open(full).read()
        allocc = old.startswith("ALL:")
        if allocc:
            old = old[4:]
        if src.count(old) != 1 and not (allocc and src.count(old) > 1):
            out.append({"id": mid, "property": prop, "result": "NOT-APPLIED (pattern count %d)" % src.count(old)})
            print(out[-1]); continue
        open(full, "w").write(src.replace(old, new))
        t0 = time.time()
        try:
            env = dict(os.environ, VERIF_BUDGET_S=os.environ.get("MUT_BUDGET", "90"))
            r = subprocess.run(["/verif/check", prop, "--tier", "quick"], cwd="/verif", env=env, stdout=subprocess.PIPE, stderr=subprocess.STDOUT, text=True, timeout=1500)
            lines = [l for l in r.stdout.splitlines() if l.startswith("VIOLATION")]
            detail = ""
            sl = r.stdout.splitlines()
            for i, l in enumerate(sl):
                if l.startswith("VIOLATION") and i + 1 < len(sl):
                    detail = sl[i + 1].strip()[:300]; break
            res = {"id": mid, "property": prop, "file": path, "change": desc, "exit": r.returncode, "violations": len(lines), "first": detail, "wall_s": round(time.time() - t0, 1)}
            if r.returncode == 2:
                res["tail"] = r.stdout[-400:]
        finally:
            subprocess.run(["git", "-C", REPO, "checkout", "--", path])
        out.append(res)
        print(json.dumps(res)); sys.stdout.flush()
    json.dump(out, open("/verif/tools/mutation_results.json", "w"), indent=1)

if __name__ == "__main__":
    main()
