#!/bin/bash
# usage: rerun_failed.sh <ID> : re-run, one at a time in a private netns, the tests that failed in the last suite run of seed <ID>
id=$1; wt=/tmp/${SEEDPFX:-seed-}$id
export GOFLAGS=-mod=mod GOPROXY=off GOSUMDB=off GOTOOLCHAIN=local
cd $wt || exit 2
log=/var/tmp/seedsuite-$id.log
# top-level failing tests with their package
awk '/^--- FAIL/ {t[$3]=1} /^FAIL[ \t]+github.com/ {for (k in t) print $2, k; delete t}' $log | while read pkg t; do
  dir=${pkg#github.com/mosaicnetworks/babble/}
  ok=0
  for try in 1 2 3; do
    if /verif/tools/netns.sh go test -vet=off -count=1 -timeout 10m -run "^$t\$" ./$dir/ > /var/tmp/seedrerun-$id-$t.log 2>&1; then ok=1; break; fi
  done
  echo "seed $id $dir $t isolated: $([ $ok = 1 ] && echo PASS || echo FAIL) (try $try)"
done
