#!/usr/bin/env python3
"""store_seed.py <worktree id> <seed name> <property> <caught-by> <needs...> : copy a validated seed into /verif/seeded/<name>/"""
import json, os, shutil, sys, glob
wid, name, prop, caught = sys.argv[1:5]
needs = " ".join(sys.argv[5:])
src = "/tmp/%s%s/_seed" % (os.environ.get("SEEDPFX","seed-"), wid)
dst = "/verif/seeded/%s" % name
os.makedirs(dst, exist_ok=True)
for f in glob.glob(src + "/*"):
    if os.path.isfile(f) and os.path.getsize(f) < 400000:
        shutil.copy(f, dst)
val = open("/var/tmp/seedval-%s.log" % wid).read() if os.path.exists("/var/tmp/seedval-%s.log" % wid) else ""
meta = {
    "property": prop,
    "breaks": prop,
    "needs_to_manifest": needs,
    "produced_by": "independent sub-agent given only the property text and a scratch worktree",
    "validated": {"log": val.strip().split("\n")},
    "caught_by": caught,
}
json.dump(meta, open(dst + "/meta.json", "w"), indent=1)
print("stored", dst, os.listdir(dst))
