#!/bin/bash
# run a command in a private network namespace with loopback and one veth interface (test suites bind fixed ports)
exec unshare -rn bash -c 'ip link set lo up; ip link add veth0 type veth peer name veth1 2>/dev/null; ip addr add 10.77.0.1/24 dev veth0 2>/dev/null; ip link set veth0 up 2>/dev/null; ip link set veth1 up 2>/dev/null; exec "$@"' -- "$@"
